#!/bin/sh
# Offline setup: nothing to build. Make sure hypothesis is importable in /venv, byte-compile, determinism self-test.
set -e
cd "$(dirname "$0")"
/venv/bin/python -c "import hypothesis" 2>/dev/null || /venv/bin/pip install -q --no-index --find-links /opt/veriftools/wheels hypothesis
/venv/bin/python -m compileall -q supvsim oracles >/dev/null
mkdir -p evidence replays
exec ./selftest.sh
