"""Budgets: (number of runs, wall-clock cap in seconds) per property and tier."""
QUICK = {'default': (320, 240)}
THOROUGH = {'default': (12000, 3000)}


def budget(prop, tier):
    table = QUICK if tier == 'quick' else THOROUGH
    return table.get(prop, table['default'])
