"""Budgets: (number of runs, wall-clock cap in seconds) per property and tier."""
QUICK = {'default': (640, 300), 'C14': (1600, 400)}
THOROUGH = {'default': (12000, 1800)}


def budget(prop, tier):
    table = QUICK if tier == 'quick' else THOROUGH
    return table.get(prop, table['default'])
