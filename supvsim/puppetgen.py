"""Scenario generator for the puppet profiles: one (or two) real Supvisors instance(s) among scripted peers.

The plan is a seeded history of snapshots, process events in any order, forced events, removals, additions,
losses (crash, silence, stealth restart) and hostile messages (spoofed / mismatching origins, messages from isolated
or not yet admitted peers)."""
import os

from . import gen

STATES = [0, 10, 20, 30, 40, 100, 200, 1000]
# what Supervisor itself would produce after each state
NEXT_LEGAL = {0: [10], 10: [20, 30, 40], 20: [40, 100], 30: [10, 200], 40: [0], 100: [10], 200: [10], 1000: [10]}


HOSTILE = [
    '__import__("os").system("touch %(canary)s")', 'os.system("touch %(canary)s")', 'open("%(canary)s", "w")',
    'all()', 'any()', 'any("%(p)s", "x")', 'all("%(p)s", key=1)', '"%(n)s" if "%(n)s" else "%(n)s"', '1', 'True', 'None',
    '"("', 'any("[")', 'import os', '"%(n)s"; "%(n)s"', 'lambda: "%(n)s"', '[x for x in "%(n)s"]', '"%(n)s" + "%(n)s"',
    '"%(n)s" == "%(n)s"', 'not not "%(n)s"', 'any(all("%(p)s"))', 'all(["%(n)s", "%(n)s"])', '"%(n)s".upper()', 'any(x)',
    'f"{1}"', '-"%(n)s"', 'any(*"ab")', '(x := "%(n)s")', 'all("%(p)s") and', '', ' ', '"nomatch"', 'any("nomatch.*")',
    '"%(p)s"', 'not "%(p)s"', '"%(p)s" and "%(n)s"', 'exec("open(\'%(canary)s\', \'w\')")', 'x = "%(n)s"',
    'del x', 'pass', 'any(("%(n)s"))', 'all(not "%(n)s")', 'b"%(n)s"', '("%(n)s",)', 'any.__call__("%(p)s")',
    '(lambda f: f("%(p)s"))(any)', 'not(any("%(p)s") or "%(n)s") and all(".*")',
]


def gen_formula(rng, names, canary):
    """ A well-formed, ill-formed or hostile operational_status formula over the process names of an application. """
    prefix = os.path.commonprefix(names) if names else 'x'
    patterns = ['.*', prefix + '.*', (prefix[:-1] or 'p') + '[a-z0-9_]*', 'nomatch.*'] + [n[:-1] + '.' for n in names[:2]]
    if rng.random() < prof_hostile_rate:
        return gen.pick(rng, HOSTILE) % {'canary': canary, 'n': gen.pick(rng, names), 'p': gen.pick(rng, patterns)}

    def tree(depth):
        r = rng.random()
        if depth <= 0 or r < 0.3:
            q = gen.pick(rng, ['"', "'"])
            r2 = rng.random()
            if r2 < 0.5:
                return q + gen.pick(rng, names) + q
            return '%s(%s%s%s)' % (gen.pick(rng, ['any', 'all']), q, gen.pick(rng, patterns + names), q)
        if r < 0.45:
            return 'not ' + tree(depth - 1)
        if r < 0.55:
            return '(%s)' % tree(depth - 1)
        if r < 0.6:
            return '%s(%s)' % (gen.pick(rng, ['any', 'all']), tree(depth - 1))
        op = gen.pick(rng, [' and ', ' or '])
        return op.join(tree(depth - 1) for _ in range(rng.randint(2, 3)))
    return tree(rng.randint(0, 3))


prof_hostile_rate = 0.4


def build(prop, seed, prof):
    import random
    from . import kernel
    rng = random.Random(kernel.hash64(seed, 'puppetgen'))
    n_real = gen.pick(rng, prof.get('n_real', [1, 1, 1, 2]))
    n_pup = gen.pick(rng, prof.get('n_puppets', [1, 2, 2, 3, 3, 4]))
    nodes, instances = [], []
    for i in range(n_real + n_pup):
        skew = rng.uniform(0.0, 5.0) + (gen.pick(rng, [-3600.0, 60.0, 3600.0]) if rng.random() < 0.15 else 0.0)
        nodes.append({'host': 'host%d' % (i + 1), 'ip': '10.0.0.%d' % (i + 1), 'machine': 0x0a0000000010 + i,
                      'skew': skew, 'mono': rng.uniform(50.0, 90000.0)})
        spec = {'nick': ('n%d' % (i + 1)) if i < n_real else ('p%d' % (i - n_real + 1)), 'node': i, 'port': 60001}
        if i >= n_real:
            spec['puppet'] = True
            spec['period'] = 5.0
        instances.append(spec)
    sub = dict(prof)
    sub.setdefault('synchro_pool', ['TIMEOUT', 'USER', 'LIST'])
    sub['need_timeout'] = True
    sv = gen.gen_supvisors_options(rng, sub, instances)
    sv['synchro_timeout'] = 15
    groups, rules, children = gen.gen_groups_rules(rng, sub, instances)
    config = {'nodes': nodes, 'instances': instances, 'supvisors': sv, 'groups': groups, 'rules': rules,
              'children': children, 'latency': {'lo': 0.0002, 'hi': 0.02}}
    namespecs = gen.namespecs_of(config)
    if prof.get('p_real_absent'):
        # the real instance does not know every program: some processes are only brought by the peers, later on
        all_progs = ['%s:%s' % (g['name'], p_['name']) for g in groups for p_ in g['programs']]
        for spec in instances:
            if not spec.get('puppet') and len(all_progs) > 1 and rng.random() < prof['p_real_absent']:
                spec['absent_programs'] = rng.sample(all_progs, rng.randint(1, max(1, len(all_progs) // 2)))
    if prof.get('formulas'):
        from oracles.appstatus import CANARY
        for app in rules['applications']:
            if rng.random() < prof['formulas']:
                names = [ns.split(':')[1] for ns in namespecs if ns.startswith(app['name'] + ':')]
                app['operational_status'] = gen_formula(rng, names, CANARY % seed)
    reals = [s['nick'] for s in instances if not s.get('puppet')]
    pups = [s['nick'] for s in instances if s.get('puppet')]
    everyone = reals + pups
    plan = [{'t': round(rng.uniform(0.0, 1.0) if k else 0.0, 3), 'kind': 'boot', 'inst': nick}
            for k, nick in enumerate(reals)]
    t0, t1 = prof.get('window', (18.0, 160.0))
    hostile = prof.get('hostile', 0.0)
    known = {}
    cur = {}     # (puppet, ns) -> last state sent (to produce legal continuations)

    def snapshot_states(p):
        ks = [ns for ns in namespecs if rng.random() < prof.get('p_known', 0.85)] or [gen.pick(rng, namespecs)]
        known[p] = ks
        out = {}
        for ns in ks:
            out[ns] = gen.pick(rng, [0] * 6 + [20, 20, 10, 30, 40, 100, 200])
            cur[(p, ns)] = out[ns]
        return out

    def up_item(p, t):
        item = {'t': round(t, 3), 'kind': 'p_up', 'p': p, 'states': snapshot_states(p),
                'phase': round(rng.uniform(0.0, 4.9), 3)}
        r = rng.random()
        if r < prof.get('p_sees_isolated', 0.0):
            item['sees_caller'] = 5
        elif r < prof.get('p_sees_isolated', 0.0) + prof.get('p_strategy_mismatch', 0.0):
            key = gen.pick(rng, ['auto-fencing', 'starting', 'conciliation', 'supvisors_failure'])
            item['strategies'] = {key: '__other__'}
        return item

    for p in pups:
        t = rng.uniform(0.0, 6.0) if rng.random() < 0.75 else rng.uniform(20.0, t1 - 30.0)
        plan.append(up_item(p, t))
    # history
    n_events = rng.randint(*prof.get('n_events', (10, 120)))
    weights = prof.get('weights', {'event': 70, 'forced': 10, 'removed': 3, 'added': 3, 'down': 2, 'mute': 2,
                                   'stealth': 1.5, 'disability': 1, 'op': 3, 'tick': 1, 'state': 1, 'op_remove': 1.5})
    kinds = sorted(weights)
    total = sum(weights.values())
    times = sorted(rng.uniform(t0, t1) for _ in range(n_events))
    # bursts: some events land within the same millisecond range
    for i in range(1, len(times)):
        if rng.random() < 0.3:
            times[i] = times[i - 1] + rng.uniform(0.0, 0.01)
    times.sort()
    legal_bias = gen.pick(rng, [0.0, 0.3, 0.7, 0.95])
    for t in times:
        r = rng.uniform(0, total)
        kind = kinds[-1]
        for k in kinds:
            r -= weights[k]
            if r <= 0:
                kind = k
                break
        p = gen.pick(rng, pups)
        item = {'t': round(t, 4), 'p': p}
        claim = None
        if rng.random() < hostile:
            claim = gen.pick(rng, [x for x in everyone if x != p] + ['mismatch', 'unknown', 'renamed', 'renamed'])
        if kind == 'event':
            pool = known.get(p) or namespecs
            ns = gen.pick(rng, pool) if rng.random() < 0.95 else gen.pick(rng, namespecs)
            last = cur.get((p, ns), 0)
            if rng.random() < legal_bias:
                state = gen.pick(rng, NEXT_LEGAL[last])
            else:
                state = gen.pick(rng, STATES)
            cur[(p, ns)] = state
            item.update({'kind': 'p_event', 'ns': ns, 'state': state,
                         'expected': rng.random() < 0.5 if state == 100 else state != 200,
                         'dt': gen.pick(rng, [0.0] * 6 + [-5.0, -0.5, 0.5, 5.0])})
        elif kind == 'forced':
            item.update({'kind': 'p_forced', 'ns': gen.pick(rng, namespecs), 'target': gen.pick(rng, everyone),
                         'state': gen.pick(rng, [200, 200, 0, 0, 100, 1000]),
                         'shift': gen.pick(rng, [-100.0, -10.0, -1.0, -0.001, 0.0, 0.001, 1.0, 10.0, 100.0])})
        elif kind == 'removed':
            ns = gen.pick(rng, known.get(p) or namespecs)
            if rng.random() < 0.25:
                ns = ns.split(':')[0] + ':*'
            item.update({'kind': 'p_removed', 'ns': ns})
        elif kind == 'added':
            item.update({'kind': 'p_added', 'ns': gen.pick(rng, namespecs), 'state': gen.pick(rng, [0, 0, 0, 20, 10])})
        elif kind == 'disability':
            item.update({'kind': 'p_disability', 'ns': gen.pick(rng, namespecs), 'disabled': rng.random() < 0.6})
        elif kind == 'down':
            item.update({'kind': 'p_down'})
            plan.append(up_item(p, t + rng.uniform(1.0, 60.0)))
        elif kind == 'mute':
            item.update({'kind': 'p_mute'})
            plan.append({'t': round(t + rng.uniform(5.0, 60.0), 3), 'kind': 'p_unmute', 'p': p})
        elif kind == 'stealth':
            # restart faster than the failure detection: only the tick counter tells
            item.update({'kind': 'p_down'})
            plan.append(up_item(p, t + rng.uniform(0.2, 4.0)))
        elif kind == 'tick':
            item.update({'kind': 'p_tick', 'counter': gen.pick(rng, [None, 0, 1, 10 ** 6])})
        elif kind == 'state':
            item.update({'kind': 'p_state', 'modes': gen.pick(rng, [None, {'master_identifier': ''},
                                                                   {'fsm_statecode': 2, 'fsm_statename': 'ELECTION'},
                                                                   {'degraded_mode': True}])})
        elif kind == 'discovery':
            # a DISCOVERY notification (discovery mode: what the multicast receiver hands over) naming this peer: under its
            # own identity, under a new nick identifier (restarted with another Supervisor identifier), under its nick
            # with another address, or naming another declared instance. All of them are about KNOWN instances, so a
            # correct candidate check refuses every one
            item.update({'kind': 'p_raw', 'comm_type': 'SupvisorsNotification', 'header': 4, 'body': {}})
            claim = gen.pick(rng, [None, 'newnick', 'newnick', 'newnick', 'nickmoved'] + [x for x in everyone if x != p])
        elif kind == 'slowlink':
            # slow answers of a peer: the hand-shake queries and their responses take seconds
            a, b = gen.pick(rng, reals), p
            if rng.random() < 0.5:
                a, b = b, a
            plan.append({'t': round(t, 4), 'kind': 'slow', 'src': a, 'dst': b, 'extra': round(rng.uniform(2.0, 12.0), 3),
                         'd': round(rng.uniform(10.0, 45.0), 3)})
            continue
        elif kind == 'replay':
            item = {'t': round(t, 4), 'kind': 'replay_note', 'inst': gen.pick(rng, reals), 'pick': rng.randrange(1000),
                    'header': gen.pick(rng, [None, 0, 1, 2, 3, 5])}
            if rng.random() < 0.6:
                item['prefer'] = 'isolated'
                item['pick'] = gen.pick(rng, [0, 0, 1, 2, item['pick']])
        elif kind == 'op_remove':
            # a start asked to a real instance, and the program removed from the peers while the request is pending
            target = gen.pick(rng, reals)
            ns = gen.pick(rng, namespecs)
            plan.append({'t': round(t, 4), 'kind': 'rpc', 'inst': target, 'method': 'supvisors.start_process',
                         'args': [gen.pick(rng, [0, 1, 2, 4, 5]), ns, '', False]})
            for q in pups:
                if rng.random() < 0.8:
                    plan.append({'t': round(t + rng.uniform(0.3, 9.0), 4), 'kind': 'p_removed', 'p': q,
                                 'ns': ns if rng.random() < 0.8 else ns.split(':')[0] + ':*'})
            continue
        elif kind == 'op':
            target = gen.pick(rng, reals)
            ns = gen.pick(rng, namespecs)
            app = ns.split(':')[0]
            method, args = gen.pick(rng, [('supvisors.start_process', [0, ns, '', False]),
                                          ('supvisors.stop_process', [ns, False]),
                                          ('supvisors.start_application', [0, app, False]),
                                          ('supvisors.stop_application', [app, False]),
                                          ('supervisor.startProcess', [ns, False]),
                                          ('supervisor.stopProcess', [ns, False])])
            item = {'t': round(t, 4), 'kind': 'rpc', 'inst': target, 'method': method, 'args': args}
        if claim is not None and item['kind'].startswith('p_') and item['kind'] not in ('p_down', 'p_mute', 'p_tick'):
            item['claim'] = claim
        plan.append(item)
    if prof.get('stats'):
        from . import statsgen
        sv['stats_enabled'] = 'all'
        sv['stats_periods'] = sorted(set(rng.sample([1.0, 5.0, 7.5, 10.0, 30.0, 60.0], rng.randint(1, 3))))
        sv['stats_histo'] = gen.pick(rng, [10, 10, 11, 15, 25])
        sv['stats_irix_mode'] = rng.random() < 0.5
        config['stats_ncores'] = {}
        for p in pups:
            items, ncores = statsgen.gen_stream(rng, p, known.get(p) or namespecs[:2], 5.0, t1 + 20.0,
                                                rng.randint(*prof.get('n_samples', (40, 400))))
            plan.extend(items)
            config['stats_ncores'][gen.identifier_of(config, p)] = ncores
    t_end = t1 + prof.get('quiesce', 45.0)
    return {'prop': prop, 'seed': seed, 'config': config, 'plan': plan, 't_end': t_end}
