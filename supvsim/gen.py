"""Configuration: materialisation of a config dict into supervisord.conf / rules.xml, and the seeded generator."""
import json
import os
from xml.sax.saxutils import escape

STARTING_STRATEGIES = ['CONFIG', 'LESS_LOADED', 'MOST_LOADED', 'LOCAL', 'LESS_LOADED_NODE', 'MOST_LOADED_NODE']
CONCILIATION_STRATEGIES = ['SENICIDE', 'INFANTICIDE', 'USER', 'STOP', 'RESTART', 'RUNNING_FAILURE']
SUPVISORS_FAILURE_STRATEGIES = ['CONTINUE', 'RESYNC', 'SHUTDOWN']
STARTING_FAILURE = ['ABORT', 'CONTINUE', 'STOP']
RUNNING_FAILURE = ['CONTINUE', 'RESTART_PROCESS', 'STOP_APPLICATION', 'RESTART_APPLICATION', 'SHUTDOWN', 'RESTART']
DISTRIBUTIONS = ['ALL_INSTANCES', 'SINGLE_INSTANCE', 'SINGLE_NODE']
SYNCHRO = ['STRICT', 'LIST', 'TIMEOUT', 'CORE', 'USER']


def identifier_of(config, nick):
    spec = next(s for s in config['instances'] if s['nick'] == nick)
    return '%s:%d' % (config['nodes'][spec['node']]['host'], spec['port'])


def supvisors_list(config):
    items = []
    for spec in config['instances']:
        node = config['nodes'][spec['node']]
        items.append('<%s>%s:%d' % (spec['nick'], node['host'], spec['port']))
    return ','.join(items)


def program_section(prog):
    numprocs = prog.get('numprocs', 1)
    lines = ['[program:%s]' % prog['name'],
             'command=/bin/sim %(group_name)s:%(program_name)s' + ('_%(process_num)02d' if numprocs > 1 else ''),
             'autostart=%s' % ('true' if prog.get('autostart') else 'false'),
             'autorestart=%s' % prog.get('autorestart', 'false'),
             'startsecs=%d' % prog.get('startsecs', 1),
             'startretries=%d' % prog.get('startretries', 1),
             'stopwaitsecs=%d' % prog.get('stopwaitsecs', 2),
             'exitcodes=%s' % prog.get('exitcodes', '0'),
             'stdout_logfile=NONE',
             'stderr_logfile=NONE']
    if numprocs > 1:
        lines.append('numprocs=%d' % numprocs)
        lines.append('process_name=%(program_name)s_%(process_num)02d')
    return '\n'.join(lines) + '\n'


def rules_xml(rules):
    out = ['<?xml version="1.0" encoding="UTF-8" standalone="no"?>', '<root>']
    for name, value in rules.get('aliases', {}).items():
        out.append(' <alias name="%s">%s</alias>' % (escape(name), escape(value)))

    def prog_elt(tag, prog, indent):
        key = 'name' if 'name' in prog else 'pattern'
        out.append('%s<%s %s="%s">' % (indent, tag, key, escape(prog[key])))
        for field in ('reference', 'identifiers', 'start_sequence', 'stop_sequence', 'required', 'wait_exit',
                      'expected_loading', 'starting_failure_strategy', 'running_failure_strategy'):
            if field in prog and prog[field] is not None:
                value = prog[field]
                if isinstance(value, bool):
                    value = 'true' if value else 'false'
                out.append('%s <%s>%s</%s>' % (indent, field, escape(str(value)), field))
        out.append('%s</%s>' % (indent, tag))

    for model in rules.get('models', []):
        prog_elt('model', model, ' ')
    for app in rules.get('applications', []):
        key = 'name' if 'name' in app else 'pattern'
        out.append(' <application %s="%s">' % (key, escape(app[key])))
        for field in ('distribution', 'identifiers', 'start_sequence', 'stop_sequence', 'starting_strategy',
                      'starting_failure_strategy', 'running_failure_strategy', 'operational_status'):
            if field in app and app[field] is not None:
                out.append('  <%s>%s</%s>' % (field, escape(str(app[field])), field))
        if app.get('programs'):
            out.append('  <programs>')
            for prog in app['programs']:
                prog_elt('program', prog, '   ')
            out.append('  </programs>')
        out.append(' </application>')
    out.append('</root>')
    return '\n'.join(out) + '\n'


def write_instance_files(sim, inst):
    """ Write the files one supervisord incarnation boots from. The disabilities file survives restarts. """
    config = sim.config
    spec = inst.spec
    d = os.path.join(sim.scratch, spec['nick'])
    os.makedirs(d, exist_ok=True)
    sv = dict(config['supvisors'])
    sv.update(spec.get('supvisors_override', {}))
    lines = ['[inet_http_server]', 'port=:%d' % spec['port'], '',
             '[supervisord]', 'nodaemon=true', 'identifier=%s' % spec['nick'],
             'logfile=%s/supervisord.log' % d, 'pidfile=%s/supervisord.pid' % d, 'childlogdir=%s' % d, '',
             '[rpcinterface:supervisor]',
             'supervisor.rpcinterface_factory = supervisor.rpcinterface:make_main_rpcinterface', '',
             '[rpcinterface:supvisors]',
             'supervisor.rpcinterface_factory = supvisors.plugin:make_supvisors_rpcinterface',
             'supvisors_list = %s' % supvisors_list(config),
             'stats_enabled = %s' % sv.get('stats_enabled', 'false'),
             'disabilities_file = %s/disabilities.json' % d]
    if config.get('rules') is not None:
        rules_path = os.path.join(d, 'rules.xml')
        with open(rules_path, 'w') as f:
            f.write(rules_xml(config['rules']))
        lines.append('rules_files = %s' % rules_path)
    for key in ('auto_fence', 'synchro_options', 'synchro_timeout', 'inactivity_ticks', 'core_identifiers',
                'starting_strategy', 'conciliation_strategy', 'supvisors_failure_strategy', 'stats_periods',
                'stats_histo', 'stats_irix_mode', 'stats_collecting_period'):
        if key in sv and sv[key] is not None:
            value = sv[key]
            if isinstance(value, (list, tuple)):
                value = ','.join(str(x) for x in value)
            if isinstance(value, bool):
                value = 'true' if value else 'false'
            lines.append('%s = %s' % (key, value))
    if spec.get('stereotypes'):
        lines.append('stereotypes = %s' % ','.join(spec['stereotypes']))
    lines.append('')
    absent = set(spec.get('absent_programs', []))
    for group in config['groups']:
        if group['name'] in spec.get('absent_groups', []):
            continue
        progs = [p for p in group['programs'] if '%s:%s' % (group['name'], p['name']) not in absent]
        if not progs:
            continue
        for prog in progs:
            lines.append(program_section(prog))
        lines.append('[group:%s]' % group['name'])
        lines.append('programs=%s' % ','.join(p['name'] for p in progs))
        lines.append('')
    conf = os.path.join(d, 'supervisord.conf')
    with open(conf, 'w') as f:
        f.write('\n'.join(lines))
    # initial disabilities (only at first boot: afterwards the file is Supvisors' durable state)
    dis_path = os.path.join(d, 'disabilities.json')
    if inst.incarnation == 0 and spec.get('disabled'):
        with open(dis_path, 'w') as f:
            json.dump({name: True for name in spec['disabled']}, f)
    return conf


def simple_config(n=3, **sv):
    """ A fixed small cluster used by smoke tests. """
    nodes = [{'host': 'host%d' % (i + 1), 'ip': '10.0.0.%d' % (i + 1), 'machine': 0x10 + i, 'skew': 0.7 * i,
              'mono': 1000.0 * (i + 1)} for i in range(n)]
    instances = [{'nick': 'n%d' % (i + 1), 'node': i, 'port': 60001} for i in range(n)]
    supv = {'synchro_options': ['STRICT', 'TIMEOUT'], 'synchro_timeout': 20, 'inactivity_ticks': 2,
            'auto_fence': False, 'starting_strategy': 'CONFIG', 'conciliation_strategy': 'USER',
            'supvisors_failure_strategy': 'CONTINUE'}
    supv.update(sv)
    groups = [{'name': 'app1', 'programs': [{'name': 'a', 'startsecs': 1}, {'name': 'b', 'startsecs': 2},
                                            {'name': 'c', 'startsecs': 1}]},
              {'name': 'app2', 'programs': [{'name': 'x', 'startsecs': 1}, {'name': 'y', 'startsecs': 1}]}]
    rules = {'applications': [
        {'name': 'app1', 'start_sequence': 1, 'programs': [
            {'name': 'a', 'start_sequence': 1, 'required': True, 'expected_loading': 10, 'identifiers': '*'},
            {'name': 'b', 'start_sequence': 2, 'expected_loading': 20, 'identifiers': '*',
             'running_failure_strategy': 'RESTART_PROCESS'},
            {'name': 'c', 'start_sequence': 2, 'expected_loading': 5, 'identifiers': '*'}]},
        {'name': 'app2', 'start_sequence': 2, 'programs': [
            {'name': 'x', 'start_sequence': 1, 'expected_loading': 10, 'identifiers': '*'},
            {'name': 'y', 'start_sequence': 2, 'expected_loading': 10, 'identifiers': '*'}]}]}
    return {'nodes': nodes, 'instances': instances, 'supvisors': supv, 'groups': groups, 'rules': rules,
            'children': {'*': {}}, 'latency': {'lo': 0.0002, 'hi': 0.02}}


# ---------------------------------------------------------------------------------------------------
# seeded generators (configuration swarm)
def pick(rng, seq):
    return seq[rng.randrange(len(seq))]


def gen_topology(rng, prof):
    n_inst = pick(rng, prof.get('n_inst', [2, 3, 3, 4, 5]))
    if rng.random() < prof.get('p_shared_node', 0.3) and n_inst > 1:
        n_nodes = rng.randint(1, n_inst - 1)
    else:
        n_nodes = n_inst
    nodes = []
    for i in range(n_nodes):
        skew = rng.uniform(0.0, 5.0)
        if rng.random() < prof.get('p_big_skew', 0.15):
            skew += pick(rng, [-3600.0, -60.0, 60.0, 3600.0])
        nodes.append({'host': 'host%d' % (i + 1), 'ip': '10.0.0.%d' % (i + 1), 'machine': 0x0a0000000010 + i,
                      'skew': skew, 'mono': rng.uniform(50.0, 90000.0)})
    names = ['sv%02d' % k for k in rng.sample(range(1, 30), n_inst)]
    instances = []
    ports = {}
    for i in range(n_inst):
        node = i if i < n_nodes else rng.randrange(n_nodes)
        ports[node] = ports.get(node, 60000) + 1
        instances.append({'nick': names[i], 'node': node, 'port': ports[node]})
    return nodes, instances


def gen_supvisors_options(rng, prof, instances):
    nicks = [s['nick'] for s in instances]
    synchro_pool = prof.get('synchro_pool', SYNCHRO)
    k = rng.randint(1, min(3, len(synchro_pool)))
    synchro = rng.sample(synchro_pool, k)
    if prof.get('need_timeout') and 'TIMEOUT' not in synchro:
        synchro.append('TIMEOUT')
    core = []
    if rng.random() < prof.get('p_core', 0.4):
        core = rng.sample(nicks, rng.randint(1, max(1, len(nicks) - 1)))
    if 'CORE' in synchro and not core:
        core = [pick(rng, nicks)]
    sv = {'synchro_options': synchro,
          'synchro_timeout': pick(rng, prof.get('synchro_timeout', [15, 20, 30])),
          'core_identifiers': core,
          'inactivity_ticks': pick(rng, prof.get('inactivity_ticks', [2, 2, 3, 4])),
          'auto_fence': rng.random() < prof.get('p_auto_fence', 0.3),
          'starting_strategy': pick(rng, prof.get('starting_strategies', STARTING_STRATEGIES)),
          'conciliation_strategy': pick(rng, prof.get('conciliation_strategies', CONCILIATION_STRATEGIES)),
          'supvisors_failure_strategy': pick(rng, prof.get('supvisors_failure_strategies', ['CONTINUE'] * 4
                                                           + ['RESYNC', 'SHUTDOWN']))}
    return sv


def gen_groups_rules(rng, prof, instances):
    """ Supervisor groups/programs, the rules file and the child scripts. """
    nicks = [s['nick'] for s in instances]
    n_groups = pick(rng, prof.get('n_groups', [1, 2, 2, 3]))
    groups, apps, children = [], [], {}
    loads = prof.get('loads', [0, 5, 10, 20, 30, 50])
    for g in range(n_groups):
        gname = 'app%d' % (g + 1)
        n_prog = pick(rng, prof.get('n_programs', [1, 2, 3, 4]))
        managed = rng.random() < prof.get('p_managed', 0.85)
        programs, prules = [], []
        for p in range(n_prog):
            pname = 'p%d%s' % (g + 1, 'abcdefgh'[p])
            numprocs = 1 if rng.random() > prof.get('p_numprocs', 0.15) else rng.randint(2, 3)
            startsecs = pick(rng, prof.get('startsecs', [0, 1, 1, 2, 4, 8]))
            prog = {'name': pname, 'numprocs': numprocs, 'startsecs': startsecs,
                    'stopwaitsecs': pick(rng, prof.get('stopwaitsecs', [1, 2, 4, 8])),
                    'startretries': pick(rng, prof.get('startretries', [0, 1, 2])),
                    'autostart': rng.random() < prof.get('p_autostart', 0.05),
                    'autorestart': pick(rng, prof.get('autorestart', ['false'] * 5 + ['unexpected', 'true']))}
            programs.append(prog)
            # child behaviour
            r = rng.random()
            script = {}
            kinds = prof.get('child_kinds', {'ok': 0.7, 'exit_late': 0.08, 'exit_early': 0.08, 'backoff_then_ok': 0.05,
                                             'exec_fail': 0.04, 'ignore_stop': 0.05})
            acc = 0.0
            chosen = 'ok'
            for kname, w in kinds.items():
                acc += w
                if r < acc:
                    chosen = kname
                    break
            if chosen == 'exit_late':
                script = {'exit_after': startsecs + rng.uniform(3.0, 40.0), 'exit_code': pick(rng, [0, 0, 1, 2])}
            elif chosen == 'exit_late_then_ok':
                script = {'seq': [{'exit_after': startsecs + rng.uniform(3.0, 40.0), 'exit_code': pick(rng, [0, 1, 2])}]
                          * rng.randint(1, 2) + [{}]}
            elif chosen == 'exit_early':
                script = {'exit_after': rng.uniform(0.0, max(0.2, startsecs * 0.8)), 'exit_code': pick(rng, [0, 1])}
            elif chosen == 'backoff_then_ok':
                script = {'seq': [{'exit_after': 0.05, 'exit_code': 1}] * rng.randint(1, 2) + [{}]}
            elif chosen == 'exec_fail':
                script = {'exec_fail': True}
            elif chosen == 'ignore_stop':
                script = {'on_stop': ['ignore']}
            elif chosen == 'slow_stop':
                script = {'on_stop': ['exit', rng.uniform(0.5, 6.0)]}
            if script:
                children['%s:%s' % (gname, pname)] = script
            if managed:
                rule = {'name': pname} if numprocs == 1 else {'pattern': pname + '_'}
                if rng.random() < prof.get('p_sequenced', 0.8):
                    rule['start_sequence'] = rng.randint(1, prof.get('max_seq', 3))
                    if rng.random() < 0.4:
                        rule['stop_sequence'] = rng.randint(0, prof.get('max_seq', 3))
                    if rng.random() < 0.5:
                        rule['required'] = True
                if rng.random() < prof.get('p_wait_exit', 0.1) and 'exit_after' in script \
                        and script.get('exit_code', 0) == 0:
                    rule['wait_exit'] = True
                rule['expected_loading'] = pick(rng, loads)
                r2 = rng.random()
                if r2 < prof.get('p_ident_rule', 0.5):
                    k = rng.randint(1, len(nicks))
                    rule['identifiers'] = ','.join(rng.sample(nicks, k))
                elif r2 < prof.get('p_ident_rule', 0.5) + 0.1 and numprocs > 1:
                    rule['identifiers'] = pick(rng, ['#', '@']) + ',' + ','.join(rng.sample(nicks, len(nicks)))
                else:
                    rule['identifiers'] = '*'
                if rng.random() < 0.5:
                    rule['running_failure_strategy'] = pick(rng, prof.get('running_failure', RUNNING_FAILURE[:4]))
                if rng.random() < 0.3:
                    rule['starting_failure_strategy'] = pick(rng, STARTING_FAILURE)
                prules.append(rule)
        groups.append({'name': gname, 'programs': programs})
        has_exec_fail = any(children.get('%s:%s' % (gname, p['name']), {}).get('exec_fail') for p in programs)
        if managed and has_exec_fail and prof.get('no_restart_storm'):
            # the endless restart loop (command that cannot be executed + RESTART_APPLICATION) is a recorded finding
            # of C06: profiles about other properties keep the two apart
            for rule in prules:
                if rule.get('running_failure_strategy') == 'RESTART_APPLICATION':
                    rule['running_failure_strategy'] = 'CONTINUE'
        if managed:
            app = {'name': gname, 'programs': prules}
            if rng.random() < prof.get('p_app_sequenced', 0.85):
                app['start_sequence'] = rng.randint(1, prof.get('max_app_seq', 2))
                if rng.random() < 0.3:
                    app['stop_sequence'] = rng.randint(0, 2)
            app['distribution'] = pick(rng, prof.get('distributions', ['ALL_INSTANCES'] * 4 + DISTRIBUTIONS[1:]))
            if app['distribution'] != 'ALL_INSTANCES' or rng.random() < 0.2:
                k = rng.randint(1, len(nicks))
                app['identifiers'] = pick(rng, ['*', ','.join(rng.sample(nicks, k))])
            if rng.random() < 0.5:
                app['starting_strategy'] = pick(rng, prof.get('starting_strategies', STARTING_STRATEGIES))
            if rng.random() < 0.5:
                app['starting_failure_strategy'] = pick(rng, STARTING_FAILURE)
            if rng.random() < 0.5:
                app['running_failure_strategy'] = pick(rng, prof.get('running_failure', RUNNING_FAILURE[:4]))
            if has_exec_fail and prof.get('no_restart_storm'):
                if app.get('running_failure_strategy') == 'RESTART_APPLICATION':
                    app['running_failure_strategy'] = 'STOP_APPLICATION'
            apps.append(app)
    return groups, {'applications': apps}, children


def gen_config(rng, prof):
    nodes, instances = gen_topology(rng, prof)
    sv = gen_supvisors_options(rng, prof, instances)
    groups, rules, children = gen_groups_rules(rng, prof, instances)
    # instances of the cluster that do not know some programs / have them disabled
    all_progs = ['%s:%s' % (g['name'], p['name']) for g in groups for p in g['programs']]
    for spec in instances:
        if rng.random() < prof.get('p_absent', 0.15) and all_progs:
            spec['absent_programs'] = rng.sample(all_progs, rng.randint(1, max(1, len(all_progs) // 2)))
        if rng.random() < prof.get('p_disabled', 0.1) and all_progs:
            spec['disabled'] = [pick(rng, all_progs).split(':')[1]]
    lat = pick(rng, prof.get('latencies', [{'lo': 0.0002, 'hi': 0.02}] * 3 + [{'lo': 0.001, 'hi': 0.3},
                                                                              {'lo': 0.01, 'hi': 1.5}]))
    return {'nodes': nodes, 'instances': instances, 'supvisors': sv, 'groups': groups, 'rules': rules,
            'children': children, 'latency': lat}


# ---------------------------------------------------------------------------------------------------
# plans
def namespecs_of(config):
    out = []
    for g in config['groups']:
        for p in g['programs']:
            n = p.get('numprocs', 1)
            if n == 1:
                out.append('%s:%s' % (g['name'], p['name']))
            else:
                out.extend('%s:%s_%02d' % (g['name'], p['name'], k) for k in range(n))
    return out


def gen_boots(rng, prof, config):
    plan = []
    for spec in config['instances']:
        t = 0.0
        if rng.random() < prof.get('p_late_boot', 0.25):
            t = rng.uniform(3.0, prof.get('late_boot_max', 90.0))
        else:
            t = rng.uniform(0.0, 2.0)
        plan.append({'t': round(t, 3), 'kind': 'boot', 'inst': spec['nick']})
    # at least one instance boots early
    min(plan, key=lambda i: i['t'])['t'] = 0.0
    return plan


DEFAULT_FAULT_WEIGHTS = {'crash': 2, 'restart': 3, 'partition': 2, 'stall': 1, 'slow': 1, 'clock_jump': 0.5,
                         'child_exit': 2}
TRIGGER_STATES = ['ELECTION', 'DISTRIBUTION', 'OPERATION', 'CONCILIATION', 'RESTARTING', 'SHUTTING_DOWN',
                  'SYNCHRONIZATION']


def _weighted(rng, weights):
    total = sum(weights.values())
    r = rng.random() * total
    acc = 0.0
    for k, w in weights.items():
        acc += w
        if r < acc:
            return k
    return next(iter(weights))


def gen_faults(rng, prof, config):
    nicks = [s['nick'] for s in config['instances']]
    t0, t1 = prof.get('fault_window', (20.0, 200.0))
    n = rng.randint(prof.get('min_faults', 0), prof.get('max_faults', 4))
    weights = prof.get('fault_weights', DEFAULT_FAULT_WEIGHTS)
    plan = []
    for _ in range(n):
        kind = _weighted(rng, weights)
        item = {'kind': kind}
        if rng.random() < prof.get('p_trigger', 0.3):
            item['trigger'] = {'state': pick(rng, prof.get('trigger_states', TRIGGER_STATES)), 'inst': '*',
                               'delay': round(rng.uniform(0.0, 4.0), 3), 'after': round(rng.uniform(0.0, t0), 3),
                               'before': t1 - 5.0}
            if prof.get('trigger_delays'):
                item['trigger']['delay'] = pick(rng, prof['trigger_delays'])
            victim = pick(rng, prof.get('victim_pool') or ['$trigger', '$master', '$nonmaster', pick(rng, nicks)])
        else:
            item['t'] = round(rng.uniform(t0, t1), 3)
            victim = pick(rng, prof.get('victim_pool') or (nicks + ['$master']))
        if kind == 'crash':
            item['inst'] = victim
        elif kind == 'restart':
            item['inst'] = victim
            item['delay'] = round(pick(rng, [rng.uniform(0.3, 4.0), rng.uniform(4.0, 40.0)]), 3)
        elif kind == 'partition':
            if len(nicks) < 2:
                continue
            k = rng.randint(1, len(nicks) - 1)
            side = rng.sample(nicks, k)
            other = [x for x in nicks if x not in side]
            directed = rng.random() < 0.25
            pairs = [[a, b] for a in side for b in other]
            if not directed:
                pairs += [[b, a] for a in side for b in other]
            item['pairs'] = pairs
            item['mode'] = pick(rng, ['refuse', 'refuse', 'blackhole'])
            if item['mode'] == 'blackhole':
                item['tcp_timeout'] = round(rng.uniform(10.0, 90.0), 1)
            if rng.random() < prof.get('p_heal', 0.8) and 't' in item:
                plan.append({'t': round(min(t1, item['t'] + rng.uniform(3.0, 80.0)), 3), 'kind': 'heal',
                             'pairs': pairs})
        elif kind == 'stall':
            item['inst'] = victim
            item['d'] = round(rng.uniform(1.0, prof.get('max_stall', 25.0)), 3)
        elif kind == 'slow':
            if len(nicks) < 2:
                continue
            a, b = rng.sample(nicks, 2)
            item.update({'src': a, 'dst': b, 'extra': round(rng.uniform(0.5, 8.0), 3),
                         'd': round(rng.uniform(5.0, 40.0), 3)})
        elif kind == 'clock_jump':
            item['node'] = rng.randrange(len(config['nodes']))
            item['delta'] = pick(rng, [-3600.0, -60.0, -7.0, -1.0, 1.0, 7.0, 60.0, 3600.0])
        elif kind == 'child_exit':
            item['inst'] = victim
            item['pick'] = rng.randrange(8)
            item['code'] = pick(rng, [0, 1, 1, 2])
        plan.append(item)
    # a partition left open at the end of the window is healed or not
    if any(i['kind'] == 'partition' for i in plan) and rng.random() < prof.get('p_final_heal', 0.7):
        plan.append({'t': t1, 'kind': 'heal', 'pairs': None})
    return plan
