"""Configuration: materialisation of a config dict into supervisord.conf / rules.xml, and the seeded generator."""
import json
import os
from xml.sax.saxutils import escape

STARTING_STRATEGIES = ['CONFIG', 'LESS_LOADED', 'MOST_LOADED', 'LOCAL', 'LESS_LOADED_NODE', 'MOST_LOADED_NODE']
CONCILIATION_STRATEGIES = ['SENICIDE', 'INFANTICIDE', 'USER', 'STOP', 'RESTART', 'RUNNING_FAILURE']
SUPVISORS_FAILURE_STRATEGIES = ['CONTINUE', 'RESYNC', 'SHUTDOWN']
STARTING_FAILURE = ['ABORT', 'CONTINUE', 'STOP']
RUNNING_FAILURE = ['CONTINUE', 'RESTART_PROCESS', 'STOP_APPLICATION', 'RESTART_APPLICATION', 'SHUTDOWN', 'RESTART']
DISTRIBUTIONS = ['ALL_INSTANCES', 'SINGLE_INSTANCE', 'SINGLE_NODE']
SYNCHRO = ['STRICT', 'LIST', 'TIMEOUT', 'CORE', 'USER']


def identifier_of(config, nick):
    spec = next(s for s in config['instances'] if s['nick'] == nick)
    return '%s:%d' % (config['nodes'][spec['node']]['host'], spec['port'])


def supvisors_list(config):
    items = []
    for spec in config['instances']:
        node = config['nodes'][spec['node']]
        items.append('<%s>%s:%d' % (spec['nick'], node['host'], spec['port']))
    return ','.join(items)


def program_section(prog):
    numprocs = prog.get('numprocs', 1)
    lines = ['[program:%s]' % prog['name'],
             'command=/bin/sim %(group_name)s:%(program_name)s' + ('_%(process_num)02d' if numprocs > 1 else ''),
             'autostart=%s' % ('true' if prog.get('autostart') else 'false'),
             'autorestart=%s' % prog.get('autorestart', 'false'),
             'startsecs=%d' % prog.get('startsecs', 1),
             'startretries=%d' % prog.get('startretries', 1),
             'stopwaitsecs=%d' % prog.get('stopwaitsecs', 2),
             'exitcodes=%s' % prog.get('exitcodes', '0'),
             'stdout_logfile=NONE',
             'stderr_logfile=NONE']
    if numprocs > 1:
        lines.append('numprocs=%d' % numprocs)
        lines.append('process_name=%(program_name)s_%(process_num)02d')
    return '\n'.join(lines) + '\n'


def rules_xml(rules):
    out = ['<?xml version="1.0" encoding="UTF-8" standalone="no"?>', '<root>']
    for name, value in rules.get('aliases', {}).items():
        out.append(' <alias name="%s">%s</alias>' % (escape(name), escape(value)))

    def prog_elt(tag, prog, indent):
        key = 'name' if 'name' in prog else 'pattern'
        out.append('%s<%s %s="%s">' % (indent, tag, key, escape(prog[key])))
        for field in ('reference', 'identifiers', 'start_sequence', 'stop_sequence', 'required', 'wait_exit',
                      'expected_loading', 'starting_failure_strategy', 'running_failure_strategy'):
            if field in prog and prog[field] is not None:
                value = prog[field]
                if isinstance(value, bool):
                    value = 'true' if value else 'false'
                out.append('%s <%s>%s</%s>' % (indent, field, escape(str(value)), field))
        out.append('%s</%s>' % (indent, tag))

    for model in rules.get('models', []):
        prog_elt('model', model, ' ')
    for app in rules.get('applications', []):
        key = 'name' if 'name' in app else 'pattern'
        out.append(' <application %s="%s">' % (key, escape(app[key])))
        for field in ('distribution', 'identifiers', 'start_sequence', 'stop_sequence', 'starting_strategy',
                      'starting_failure_strategy', 'running_failure_strategy', 'operational_status'):
            if field in app and app[field] is not None:
                out.append('  <%s>%s</%s>' % (field, escape(str(app[field])), field))
        if app.get('programs'):
            out.append('  <programs>')
            for prog in app['programs']:
                prog_elt('program', prog, '   ')
            out.append('  </programs>')
        out.append(' </application>')
    out.append('</root>')
    return '\n'.join(out) + '\n'


def write_instance_files(sim, inst):
    """ Write the files one supervisord incarnation boots from. The disabilities file survives restarts. """
    config = sim.config
    spec = inst.spec
    d = os.path.join(sim.scratch, spec['nick'])
    os.makedirs(d, exist_ok=True)
    sv = dict(config['supvisors'])
    sv.update(spec.get('supvisors_override', {}))
    lines = ['[inet_http_server]', 'port=:%d' % spec['port'], '',
             '[supervisord]', 'nodaemon=true', 'identifier=%s' % spec['nick'],
             'logfile=%s/supervisord.log' % d, 'pidfile=%s/supervisord.pid' % d, 'childlogdir=%s' % d, '',
             '[rpcinterface:supervisor]',
             'supervisor.rpcinterface_factory = supervisor.rpcinterface:make_main_rpcinterface', '',
             '[rpcinterface:supvisors]',
             'supervisor.rpcinterface_factory = supvisors.plugin:make_supvisors_rpcinterface',
             'supvisors_list = %s' % supvisors_list(config),
             'stats_enabled = %s' % sv.get('stats_enabled', 'false'),
             'disabilities_file = %s/disabilities.json' % d]
    if config.get('rules') is not None:
        rules_path = os.path.join(d, 'rules.xml')
        with open(rules_path, 'w') as f:
            f.write(rules_xml(config['rules']))
        lines.append('rules_files = %s' % rules_path)
    for key in ('auto_fence', 'synchro_options', 'synchro_timeout', 'inactivity_ticks', 'core_identifiers',
                'starting_strategy', 'conciliation_strategy', 'supvisors_failure_strategy', 'stats_periods',
                'stats_histo', 'stats_irix_mode', 'stats_collecting_period'):
        if key in sv and sv[key] is not None:
            value = sv[key]
            if isinstance(value, (list, tuple)):
                value = ','.join(str(x) for x in value)
            if isinstance(value, bool):
                value = 'true' if value else 'false'
            lines.append('%s = %s' % (key, value))
    if spec.get('stereotypes'):
        lines.append('stereotypes = %s' % ','.join(spec['stereotypes']))
    lines.append('')
    absent = set(spec.get('absent_programs', []))
    for group in config['groups']:
        if group['name'] in spec.get('absent_groups', []):
            continue
        progs = [p for p in group['programs'] if '%s:%s' % (group['name'], p['name']) not in absent]
        if not progs:
            continue
        for prog in progs:
            lines.append(program_section(prog))
        lines.append('[group:%s]' % group['name'])
        lines.append('programs=%s' % ','.join(p['name'] for p in progs))
        lines.append('')
    conf = os.path.join(d, 'supervisord.conf')
    with open(conf, 'w') as f:
        f.write('\n'.join(lines))
    # initial disabilities (only at first boot: afterwards the file is Supvisors' durable state)
    dis_path = os.path.join(d, 'disabilities.json')
    if inst.incarnation == 0 and spec.get('disabled'):
        with open(dis_path, 'w') as f:
            json.dump({name: True for name in spec['disabled']}, f)
    return conf


def simple_config(n=3, **sv):
    """ A fixed small cluster used by smoke tests. """
    nodes = [{'host': 'host%d' % (i + 1), 'ip': '10.0.0.%d' % (i + 1), 'machine': 0x10 + i, 'skew': 0.7 * i,
              'mono': 1000.0 * (i + 1)} for i in range(n)]
    instances = [{'nick': 'n%d' % (i + 1), 'node': i, 'port': 60001} for i in range(n)]
    supv = {'synchro_options': ['STRICT', 'TIMEOUT'], 'synchro_timeout': 20, 'inactivity_ticks': 2,
            'auto_fence': False, 'starting_strategy': 'CONFIG', 'conciliation_strategy': 'USER',
            'supvisors_failure_strategy': 'CONTINUE'}
    supv.update(sv)
    groups = [{'name': 'app1', 'programs': [{'name': 'a', 'startsecs': 1}, {'name': 'b', 'startsecs': 2},
                                            {'name': 'c', 'startsecs': 1}]},
              {'name': 'app2', 'programs': [{'name': 'x', 'startsecs': 1}, {'name': 'y', 'startsecs': 1}]}]
    rules = {'applications': [
        {'name': 'app1', 'start_sequence': 1, 'programs': [
            {'name': 'a', 'start_sequence': 1, 'required': True, 'expected_loading': 10, 'identifiers': '*'},
            {'name': 'b', 'start_sequence': 2, 'expected_loading': 20, 'identifiers': '*',
             'running_failure_strategy': 'RESTART_PROCESS'},
            {'name': 'c', 'start_sequence': 2, 'expected_loading': 5, 'identifiers': '*'}]},
        {'name': 'app2', 'start_sequence': 2, 'programs': [
            {'name': 'x', 'start_sequence': 1, 'expected_loading': 10, 'identifiers': '*'},
            {'name': 'y', 'start_sequence': 2, 'expected_loading': 10, 'identifiers': '*'}]}]}
    return {'nodes': nodes, 'instances': instances, 'supvisors': supv, 'groups': groups, 'rules': rules,
            'children': {'*': {}}, 'latency': {'lo': 0.0002, 'hi': 0.02}}
