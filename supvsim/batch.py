"""Batch driver: seeded runs over 16 processes, minimisation, replay files, evidence, known findings."""
import collections
import faulthandler
import json
import multiprocessing
import os
import sys
import time
import traceback
from concurrent.futures import ProcessPoolExecutor, as_completed

from . import kernel

VERIF = os.path.dirname(os.path.dirname(os.path.abspath(__file__)))
REPLAYS = os.path.join(VERIF, 'replays')
# evidence is only written under /verif/evidence by a plain check of the tree as it is: surveys, mutant trials and
# other experiments (VERIF_SURVEY / VERIF_SCRATCH_EVIDENCE) write to a scratch directory instead
EVIDENCE = os.path.join(VERIF, 'evidence')
if os.environ.get('VERIF_SURVEY') or os.environ.get('VERIF_SCRATCH_EVIDENCE'):
    EVIDENCE = os.environ.get('VERIF_SCRATCH_EVIDENCE') or '/tmp/supvsim-scratch-evidence'

ASSUMPTIONS = [
    'real code: supvisors.* of /repo working tree (plugin entry point, FSM, context, state-modes, starter/stopper, '
    'strategies, failure handler, listener, RPC interface, parser, options, mapper, SupervisorProxy logic) and '
    'Supervisor 4.2.5 (config parsing, Subprocess state machine, tick/reap/stop phases, supervisor.* RPC namespace, '
    'events bus)',
    'stubs: OS children (SimChild scripts), supervisord poll loop (1 s slices + wake-ups), HTTP server/medusa/auth, '
    'proxy thread + queue.Queue (scheduler-owned), statistics collector process, discovery/multicast, external '
    'publishers, web UI',
    'handlers of one supervisord main thread are atomic; crashes happen between events',
    'XML-RPC over TCP: a call completes, fails (OSError) or is executed with its answer lost; no silent wire loss '
    'except PROCESS publications in the C10 profile and, for one never-answering program, in the STOP focus of C03',
    'PYTHONHASHSEED pinned to 0; one seed = one execution',
]


def run_seed(prop, seed, index, replay=None, want_sample=False, plan_override=None):
    """ One run in a worker process. Returns a JSON-able dict. """
    from . import profiles
    t0 = time.time()
    faulthandler.dump_traceback_later(400, exit=True)
    res = {'seed': seed, 'index': index, 'violations': [], 'harness_error': None}
    try:
        scen = replay if replay is not None else profiles.build(prop, seed)
        if plan_override is not None:
            scen = dict(scen, **plan_override)
        run = profiles.make_run(prop, scen)
        violations = run.execute()
        sim = run.sim
        res['violations'] = [v.as_dict() for v in violations]
        res['stats'] = dict(sim.stats)
        res['faults'] = dict(run.fault_counts)
        res['probes'] = dict(sim.probes)
        for obs in run.observers:
            for k, v in getattr(obs, 'probes', {}).items():
                res['probes'][k] = res['probes'].get(k, 0) + v
        res['abstract'] = sorted(run.abstract_states)[:400]
        res['sim_s'] = sim.now
        res['steps'] = sim.steps
        res['digest'] = run.closed_digest
        res['n_inst'] = len(scen['config']['instances'])
        res['internal'] = len(sim.internal_errors)
        if want_sample or res['violations']:
            res['scenario'] = scen
    except kernel.HarnessError:
        res['harness_error'] = traceback.format_exc()
    except Exception:  # noqa
        res['harness_error'] = traceback.format_exc()
    finally:
        faulthandler.cancel_dump_traceback_later()
        if kernel._CUR_SIM is not None:
            try:
                kernel._CUR_SIM.close()
            except Exception:  # noqa
                pass
    res['wall'] = time.time() - t0
    return res


def _worker_init():
    kernel.install()


def load_known():
    path = os.path.join(VERIF, 'known_findings.json')
    if not os.path.exists(path):
        return []
    with open(path) as f:
        return json.load(f).get('findings', [])


def known_match(known, prop, violation):
    for k in known:
        if k.get('status') == 'known' and k['property'] == prop and k['signature'] == violation['signature']:
            return k
    return None


def minimise(prop, scen, target_sig, pool, budget_s=120.0):
    """ Greedy delta debugging over the plan, then over the configuration, keeping the same violation signature. """
    t0 = time.time()

    def fails(candidate):
        res = run_seed(prop, candidate['seed'], 0, replay=candidate)
        return any(v['signature'] == target_sig for v in res['violations'])

    def fails_many(cands):
        futs = [pool.submit(run_seed, prop, c['seed'], 0, c) for c in cands]
        out = []
        for f in futs:
            try:
                r = f.result(timeout=300)
                out.append(any(v['signature'] == target_sig for v in r['violations']))
            except Exception:  # noqa
                out.append(False)
        return out

    cur = scen
    changed = True
    while changed and time.time() - t0 < budget_s:
        changed = False
        plan = cur['plan']
        removable = [i for i, it in enumerate(plan) if not (it['kind'] == 'boot')]
        cands = [dict(cur, plan=plan[:i] + plan[i + 1:]) for i in removable]
        if not cands:
            break
        oks = fails_many(cands)
        # apply removals greedily, re-validating combinations
        keep = list(plan)
        for i, ok in sorted(zip(removable, oks), reverse=True):
            if ok:
                trial = [it for it in keep if it is not plan[i]]
                cand = dict(cur, plan=trial)
                if fails(cand):
                    keep = trial
                    changed = True
        cur = dict(cur, plan=keep)
    # configuration reductions: drop groups, programs, child scripts
    cfg = cur['config']
    for gi in range(len(cfg['groups']) - 1, -1, -1):
        if time.time() - t0 > budget_s:
            break
        g = cfg['groups'][gi]
        new_cfg = json.loads(json.dumps(cfg))
        del new_cfg['groups'][gi]
        if new_cfg.get('rules'):
            new_cfg['rules']['applications'] = [a for a in new_cfg['rules']['applications']
                                                if a.get('name') != g['name']]
        if not new_cfg['groups']:
            continue
        cand = dict(cur, config=new_cfg)
        if fails(cand):
            cur, cfg = cand, new_cfg
    # shorten the run
    for frac in (0.5, 0.75):
        if time.time() - t0 > budget_s:
            break
        cand = dict(cur, t_end=max(30.0, cur['t_end'] * frac))
        if fails(cand):
            cur = cand
            break
    return cur


def check(prop, tier, batch_seed, n_runs, wall_cap, workers=16):
    """ Run the batch; returns the exit code. """
    from . import profiles
    t0 = time.time()
    os.makedirs(REPLAYS, exist_ok=True)
    os.makedirs(EVIDENCE, exist_ok=True)
    known = load_known()
    seeds = [kernel.hash64(batch_seed, prop, i) % (1 << 48) for i in range(n_runs)]
    agg = {'runs': 0, 'sim_s': 0.0, 'steps': 0, 'faults': collections.Counter(), 'stats': collections.Counter(),
           'probes': collections.Counter(), 'abstract': set(), 'samples': [], 'harness_errors': [],
           'known_hits': collections.Counter(), 'cross': collections.Counter(), 'nontrivial_runs': 0,
           'digests': set()}
    new_violation = None
    ctx = multiprocessing.get_context('fork')
    # regression scenarios first: minimised replays of defects that were repaired (they must stay repaired)
    reg_dir = os.path.join(VERIF, 'regressions')
    reg_files = sorted(f for f in os.listdir(reg_dir) if f.startswith(prop + '-')) if os.path.isdir(reg_dir) else []
    agg['regressions'] = len(reg_files)
    with ProcessPoolExecutor(max_workers=workers, mp_context=ctx, initializer=_worker_init) as pool:
        reg_futs = []
        for name in reg_files:
            with open(os.path.join(reg_dir, name)) as f:
                scen = json.load(f)['scenario']
            reg_futs.append((name, pool.submit(run_seed, prop, scen['seed'], -1, scen)))
        for name, fut in reg_futs:
            res = fut.result()
            if res['harness_error']:
                agg['harness_errors'].append('regression %s\n%s' % (name, res['harness_error']))
                continue
            for v in res['violations']:
                if v['property'] == prop and known_match(known, prop, v) is None:
                    path = os.path.join(reg_dir, name)
                    write_evidence(prop, tier, batch_seed, agg, time.time() - t0, 1, profiles)
                    print('violation (regression scenario): %s' % json.dumps(v)[:2000])
                    print('VIOLATION property=%s replay=%s' % (prop, path))
                    return 1
        it = iter(enumerate(seeds))
        pending = set()

        def submit_more():
            while len(pending) < workers * 2:
                try:
                    i, s = next(it)
                except StopIteration:
                    return
                f = pool.submit(run_seed, prop, s, i, None, i < 3)
                pending.add(f)
        submit_more()
        stop = False
        while pending:
            done = next(as_completed(list(pending)))
            pending.discard(done)
            try:
                res = done.result()
            except Exception:  # noqa
                agg['harness_errors'].append(traceback.format_exc())
                continue
            if res['harness_error']:
                agg['harness_errors'].append('seed=%d\n%s' % (res['seed'], res['harness_error']))
            else:
                agg['runs'] += 1
                agg['sim_s'] += res['sim_s']
                agg['steps'] += res['steps']
                agg['faults'].update(res['faults'])
                agg['stats'].update(res['stats'])
                agg['probes'].update(res['probes'])
                agg['abstract'].update(res['abstract'])
                agg['digests'].add(res['digest'])
                if any(not k.startswith('boot') for k in res['faults']):
                    agg['nontrivial_runs'] += 1
                if 'scenario' in res and len(agg['samples']) < 3 and not res['violations']:
                    agg['samples'].append({'seed': res['seed'], 'plan': res['scenario']['plan'],
                                           'supvisors': res['scenario']['config']['supvisors'],
                                           'n_instances': res['n_inst']})
                for v in res['violations']:
                    if v['property'] != prop:
                        agg['cross']['%s:%s' % (v['property'], v['signature'])] += 1
                        if os.environ.get('VERIF_SURVEY') and known_match(known, v['property'], v) is None:
                            agg.setdefault('survey', {}).setdefault('CROSS %s:%s' % (v['property'], v['signature']),
                                                                    []).append(res['seed'])
                        continue
                    k = known_match(known, prop, v)
                    if k is not None:
                        agg['known_hits'][k['signature']] += 1
                    elif os.environ.get('VERIF_SURVEY'):
                        agg.setdefault('survey', {}).setdefault(v['signature'], []).append(res['seed'])
                    elif new_violation is None:
                        new_violation = (res, v)
                        stop = True
            if not stop and time.time() - t0 < wall_cap:
                submit_more()
        replay_path = None
        if new_violation is not None:
            res, v = new_violation
            scen = res['scenario']
            try:
                scen = minimise(prop, scen, v['signature'], pool)
            except Exception:  # noqa
                agg['harness_errors'].append('minimise: ' + traceback.format_exc())
            replay_path = os.path.join(REPLAYS, '%s-%d.json' % (prop, res['seed']))
            with open(replay_path, 'w') as f:
                json.dump({'property': prop, 'violation': v, 'scenario': scen}, f, indent=1, sort_keys=True)
    wall = time.time() - t0
    write_evidence(prop, tier, batch_seed, agg, wall, 1 if new_violation else 0, profiles)
    for k in known:
        if k['property'] == prop and k.get('status') == 'known':
            print('KNOWN-FINDING: property=%s %s (signature=%s, hit in %d runs of this batch)'
                  % (prop, k['what'], k['signature'], agg['known_hits'].get(k['signature'], 0)))
    print('%s %s: %d runs, %.0f simulated s, %d steps, %.1f s wall, %d distinct abstract states, faults=%s'
          % (prop, tier, agg['runs'], agg['sim_s'], agg['steps'], wall, len(agg['abstract']),
             dict(agg['faults'])))
    for sig, seeds_ in sorted(agg.get('survey', {}).items()):
        print('SURVEY %s: %d runs, e.g. seeds %s' % (sig, len(seeds_), seeds_[:3]))
    if agg['cross']:
        print('cross-observations (other properties, not counted here): %s' % dict(agg['cross']))
    if new_violation is not None:
        res, v = new_violation
        print('violation: %s' % json.dumps(v)[:2000])
        print('VIOLATION property=%s replay=%s' % (prop, replay_path))
        return 1
    if agg['harness_errors']:
        print('HARNESS ERROR (%d):\n%s' % (len(agg['harness_errors']), agg['harness_errors'][0][-3000:]))
        return 2
    if agg['runs'] == 0:
        print('HARNESS ERROR: no run completed')
        return 2
    return 0


def write_evidence(prop, tier, batch_seed, agg, wall, violations, profiles):
    runs = max(agg['runs'], 1)
    ev = {
        'property_id': prop, 'tier': tier, 'seed': batch_seed, 'level': 'exploration',
        'coverage': {
            'evaluations': agg['runs'],
            'distinct_nontrivial': len(agg['abstract']),
            'rule': 'one evaluation = one seeded simulated run (configuration + plan of operations and faults + '
                    'schedule all derived from the seed). distinct_nontrivial = number of distinct abstract cluster '
                    'states reached over the batch, sampled every 2.5 simulated s: (sorted per-instance (FSM state, '
                    'is_master, histogram of peer instance states), #conflicts capped at 2, jobs in progress, last '
                    'fault kind); per run at most 400 states are reported to the parent, so this is a lower bound',
            'samples': agg['samples'] or [{'note': 'no sample kept'}],
            'simulated_seconds': round(agg['sim_s'], 1),
            'events_executed': agg['steps'],
            'runs_per_hour': round(agg['runs'] / wall * 3600.0) if wall > 0 else 0,
            'simulated_hours_per_hour': round(agg['sim_s'] / wall, 1) if wall > 0 else 0,
            'runs_with_fault_or_operation': agg['nontrivial_runs'],
            'distinct_run_digests': len(agg['digests']),
            'faults_fired': dict(agg['faults']),
            'kernel_counters': dict(agg['stats']),
            'probes': dict(agg['probes']),
            'known_finding_hits': dict(agg['known_hits']),
            'cross_observations': dict(agg['cross']),
            'harness_errors': len(agg['harness_errors']),
            'regression_scenarios_replayed': agg.get('regressions', 0),
            'profile': profiles.describe(prop),
        },
        'assumptions': ASSUMPTIONS,
        'wall_s': round(wall, 2),
        'violations': violations,
    }
    with open(os.path.join(EVIDENCE, '%s.json' % prop), 'w') as f:
        json.dump(ev, f, indent=1, sort_keys=True)


def replay(prop, path):
    with open(path) as f:
        data = json.load(f)
    scen = data['scenario']
    res = run_seed(prop, scen['seed'], 0, replay=scen)
    if res['harness_error']:
        print('HARNESS ERROR\n' + res['harness_error'])
        return 2
    known = load_known()
    hit = [v for v in res['violations'] if v['property'] == prop]
    print('digest=%s' % res['digest'])
    for v in hit:
        print('violation: %s' % json.dumps(v)[:3000])
    fresh = [v for v in hit if known_match(known, prop, v) is None]
    if fresh:
        print('VIOLATION property=%s replay=%s' % (prop, path))
        return 1
    return 0
