"""Scenario = config + plan (+ seed): execution of a plan on a Sim, with observers (oracles) attached.

Plan items (all JSON): {'t': seconds | 'trigger': {...}, 'kind': ..., ...}
 kinds: boot, crash, restart(delay), partition(pairs, mode), heal(pairs|None), stall(inst,d), slow(src,dst,extra,d),
        clock_jump(node, delta), rpc(inst, method, args), child_exit(inst, namespec, code), end_faults
 triggers: {'state': 'DISTRIBUTION', 'inst': nick|'*', 'delay': s, 'after': s}
           {'wire': 'supvisors.start_args', 'n': 1, 'delay': s}
"""
import collections

from . import kernel
from .kernel import US


class Violation:
    __slots__ = ('prop', 'clause', 'detail', 't_us', 'signature')

    def __init__(self, prop, clause, detail, t_us, signature=None):
        self.prop = prop
        self.clause = clause
        self.detail = detail
        self.t_us = t_us
        self.signature = signature or clause

    def as_dict(self):
        return {'property': self.prop, 'clause': self.clause, 'detail': self.detail, 't_us': self.t_us,
                'signature': self.signature}


class Observer:
    """ Base class of oracles. All reads must go through `with sim_frozen(sim, inst)`. """
    prop = None

    def __init__(self):
        self.violations = []

    def attach(self, run):
        self.run = run
        self.sim = run.sim

    def after_event(self, sim, inst, kind):
        pass

    def finish(self):
        pass

    def violate(self, clause, detail, signature=None):
        if len(self.violations) < 20:
            self.violations.append(Violation(self.prop, clause, detail, self.sim.now_us, signature))


class frozen:
    """ Enter an instance context with the clock frozen: observation must not perturb the run. """

    def __init__(self, sim, inst):
        self.sim = sim
        self.inst = inst

    def __enter__(self):
        self.sim.freeze += 1
        self.sim.ctx.append(self.inst)
        self.sim._sync_callbacks()
        return self.inst

    def __exit__(self, *_):
        self.sim.ctx.pop()
        self.sim._sync_callbacks()
        self.sim.freeze -= 1
        return False


class Run:
    def __init__(self, config, plan, seed, observers=(), t_end=300.0, log_level=None, trace=False):
        self.config = config
        self.plan = plan
        self.seed = seed
        self.t_end = t_end
        self.sim = kernel.Sim(config, seed, log_level=log_level)
        if trace:
            self.sim.trace = []
        self.observers = list(observers)
        self.fault_counts = collections.Counter()
        self.last_fault = None
        self.t_faults_end_us = 0
        self.applied = []           # (t_us, item) actually applied
        self.abstract_states = set()
        self.pending_triggers = []
        self.wire_counts = collections.Counter()
        self.sim.observers.append(self)
        for obs in self.observers:
            obs.attach(self)
            self.sim.observers.append(obs)

    # --- Run is itself an observer: triggers + abstract-state sampling ------------------------------
    def after_event(self, sim, inst, kind):
        if self.pending_triggers:
            self._check_state_triggers(inst)

    def on_wire(self, sim, rec):
        if self.pending_triggers:
            m = rec['method']
            self.wire_counts[m] += 1
            fired = []
            for item in self.pending_triggers:
                trig = item['trigger']
                if trig.get('wire') == m and self.wire_counts[m] >= trig.get('n', 1) \
                        and trig.get('after', 0.0) <= sim.now <= trig.get('before', 1e18):
                    fired.append(item)
            for item in fired:
                self.pending_triggers.remove(item)
                if item.get('inst') == '$dst':
                    # the victim is the destination of the triggering RPC
                    if rec['dst'] is None or rec['dst'] == rec['src']:
                        self.pending_triggers.append(item)
                        continue
                    item = dict(item, inst=rec['dst'])
                sim.after(item['trigger'].get('delay', 0.0), self._apply, item)

    def _check_state_triggers(self, inst):
        sim = self.sim
        if not inst.alive or inst.supvisors is None:
            return
        state = inst.supvisors.fsm.state.name
        fired = []
        for item in self.pending_triggers:
            trig = item['trigger']
            if 'state' in trig and trig['state'] == state and trig.get('inst', '*') in ('*', inst.nick) \
                    and trig.get('after', 0.0) <= sim.now <= trig.get('before', 1e18):
                if trig.get('master') is not None:
                    is_master = inst.supvisors.state_modes.is_master()
                    if is_master != trig['master']:
                        continue
                fired.append(item)
        for item in fired:
            self.pending_triggers.remove(item)
            if item.get('inst') == '$trigger':
                item = dict(item, inst=inst.nick)
            sim.after(item['trigger'].get('delay', 0.0), self._apply, item)

    def _sample(self):
        sim = self.sim
        per = []
        jobs = False
        conflicts = 0
        for inst in sim.instances.values():
            if not inst.alive or inst.supvisors is None:
                per.append((inst.nick, 'DEAD'))
                continue
            sv = inst.supvisors
            sm = sv.state_modes
            states = collections.Counter(s.name for s in sm.local_state_modes.instance_states.values())
            per.append((sv.fsm.state.name, sm.is_master(), tuple(sorted(states.items()))))
            jobs = jobs or sm.starting_jobs or sm.stopping_jobs
            try:
                conflicts = max(conflicts, sum(1 for _ in sv.context.conflicts()))
            except Exception:  # noqa
                pass
        key = (tuple(sorted(map(repr, per))), min(conflicts, 2), jobs, self.last_fault)
        self.abstract_states.add(kernel.hash64(key))
        if sim.now < self.t_end:
            sim.after(2.5, self._sample)

    # --- plan ---------------------------------------------------------------------------------------
    def schedule(self):
        sim = self.sim
        for item in self.plan:
            if 'trigger' in item:
                self.pending_triggers.append(item)
            else:
                sim.at(item['t'], self._apply, item)
            if item['kind'] not in ('boot', 'rpc', 'end_faults', 'probe'):
                if 't' in item:
                    self.t_faults_end_us = max(self.t_faults_end_us, int(item['t'] * US))
        sim.at(1.0, self._sample)

    def _resolve(self, ref):
        """ '$master' / '$nonmaster' are resolved when the item fires, deterministically. """
        sim = self.sim
        if not ref or not ref.startswith('$'):
            return ref
        live = sorted((i for i in sim.instances.values() if i.alive and i.supvisors is not None),
                      key=lambda i: i.nick)
        master = None
        for inst in live:
            ident = inst.supvisors.state_modes.master_identifier
            if ident:
                master = sim.by_identifier.get(ident)
                break
        if ref == '$master':
            return master or (live[0].nick if live else None)
        if ref == '$nonmaster':
            for inst in live:
                if inst.nick != master:
                    return inst.nick
            return None
        return None

    def _apply(self, item):
        sim = self.sim
        kind = item['kind']
        fired = True
        if item.get('inst', '').startswith('$'):
            nick = self._resolve(item['inst'])
            if nick is None:
                self.applied.append((sim.now_us, item, False))
                return
            item = dict(item, inst=nick)
        if kind == 'boot':
            sim.boot_instance(item['inst'])
        elif kind == 'crash':
            fired = sim.crash(item['inst'])
        elif kind == 'restart':
            fired = sim.crash(item['inst'])
            if fired or item.get('force'):
                sim.after(item.get('delay', 1.0), sim.boot_instance, item['inst'])
        elif kind == 'partition':
            for a, b in item['pairs']:
                sim.cuts.add((a, b))
                if item.get('mode') == 'blackhole':
                    sim.blackhole[(a, b)] = sim.now_us + int(item.get('tcp_timeout', 60.0) * US)
        elif kind == 'heal':
            pairs = item.get('pairs')
            if pairs is None:
                sim.cuts.clear()
                sim.blackhole.clear()
            else:
                for a, b in pairs:
                    sim.cuts.discard((a, b))
                    sim.blackhole.pop((a, b), None)
        elif kind == 'stall':
            inst = sim.instances.get(item['inst'])
            fired = inst is not None and inst.alive
            if fired:
                inst.stalled_until = max(inst.stalled_until, sim.now_us + int(item['d'] * US))
        elif kind == 'slow':
            key = (item['src'], item['dst'])
            sim.slow[key] = item['extra']
            sim.after(item['d'], lambda: sim.slow.pop(key, None))
        elif kind == 'clock_jump':
            node = sim.nodes[item['node']]
            node['jump'] = node.get('jump', 0.0) + item['delta']
        elif kind == 'rpc':
            inst = sim.instances.get(item['inst'])
            fired = inst is not None and inst.alive
            # observers must know the operation before its synchronous effects (requests pushed by the handler)
            for obs in self.observers:
                f = getattr(obs, 'before_operation', None)
                if f:
                    f(item, fired)
            rec = sim.client_call(item['inst'], item['method'], item.get('args', []))
            rec['plan_item'] = item
        elif kind == 'child_exit':
            fired = self._child_exit(item)
        elif kind == 'end_faults':
            pass
        elif kind.startswith('p_'):
            fired = self._apply_puppet(item)
        elif kind == 'probe':
            nick = item['inst']
            fired = False
            for obs in self.observers:
                f = getattr(obs, 'on_probe', None)
                if f:
                    fired = f(item, nick) or fired
        elif kind == 'replay_note':
            # a stale / duplicated hand-shake notification: one that the instance's own proxies did deliver earlier
            inst = sim.instances.get(item['inst'])
            notes = [r for r in sim.wire if r['dst'] == item['inst'] and r['src'] == item['inst']
                     and r.get('comm_type') == 'SupvisorsNotification' and r.get('outcome') == 'ok'
                     and (item.get('header') is None or r.get('header') == item['header'])]
            fired = bool(notes) and inst is not None and inst.alive
            if fired and item.get('prefer') == 'isolated':
                # bias towards notifications about peers that are isolated by now (oldest first: other incarnation)
                iso = [r for r in notes if r.get('origin') in inst.supvisors.context.instances
                       and inst.supvisors.context.instances[r['origin']].state.name == 'ISOLATED']
                notes = iso or notes
            if fired:
                r = notes[item.get('pick', 0) % len(notes)]
                origin = next((list(sid.source) for i, sid in inst.supvisors.mapper.instances.items()
                               if i == r.get('origin')), None)
                if origin is None:
                    fired = False
                else:
                    origin[2] = list(origin[2])
                    import json
                    sim.client_call(item['inst'], 'supervisor.sendRemoteCommEvent',
                                    ['SupvisorsNotification', json.dumps((origin, (r['header'], r['body'])))])
        else:
            raise kernel.HarnessError('unknown plan item %r' % (item,))
        if fired:
            self.fault_counts[kind if kind != 'rpc' else 'rpc:' + item['method']] += 1
            if kind not in ('boot', 'rpc', 'end_faults'):
                self.last_fault = kind
                self.t_faults_end_us = max(self.t_faults_end_us, sim.now_us)
            elif kind == 'rpc':
                self.t_faults_end_us = max(self.t_faults_end_us, sim.now_us)
        self.applied.append((sim.now_us, item, fired))
        sim.note('plan', kind, item.get('inst'), fired)
        for obs in self.observers:
            f = getattr(obs, 'on_plan_item', None)
            if f:
                f(item, fired)

    # --- puppet peers ------------------------------------------------------------------------------
    def _targets(self, item):
        # real instances a puppet talks to (all live ones unless the item names one)
        sim = self.sim
        if item.get('to'):
            return [item['to']]
        return sorted(n for n, i in sim.instances.items() if i.alive and i.serving)

    def _puppet_beat(self, puppet, gen):
        # periodic TICK + STATE publications of a live puppet (a polite peer: it mirrors the receiver's own view)
        sim = self.sim
        if not puppet.alive or not puppet.auto_tick or gen != puppet.incarnation or sim.now >= self.t_end:
            return
        for dst in self._targets({}):
            puppet.tick(dst, advance=False)
            if puppet.mirror:
                puppet.publish_state(dst)
        puppet.counter += 1
        period = puppet.spec.get('period', 5.0)
        sim.after(period, self._puppet_beat, puppet, gen)

    def _apply_puppet(self, item):
        sim = self.sim
        kind = item['kind']
        puppet = sim.puppets[item['p']]
        if kind == 'p_up':
            # (re)start: counter back to 0 (a restart is seen through the tick counter going back)
            puppet.alive = True
            puppet.auto_tick = item.get('tick', True)
            puppet.mirror = item.get('mirror', True)
            puppet.incarnation += 1
            puppet.counter = 0
            puppet.sees_caller = item.get('sees_caller', 3)
            puppet.strategies_override = dict(item.get('strategies', {}))
            puppet.set_snapshot(item.get('states', {}))
            sim.after(item.get('phase', 0.0), self._puppet_beat, puppet, puppet.incarnation)
            return True
        if kind == 'p_down':
            fired = puppet.alive
            puppet.alive = False
            return fired
        if kind == 'p_mute':
            # stops publishing but still answers RPCs
            fired = puppet.auto_tick
            puppet.auto_tick = False
            return fired
        if kind == 'p_unmute':
            if not puppet.alive or puppet.auto_tick:
                return False
            puppet.auto_tick = True
            if item.get('reset_counter'):
                puppet.counter = 0
            self._puppet_beat(puppet, puppet.incarnation)
            return True
        if not puppet.alive and not item.get('even_dead'):
            return False
        targets = self._targets(item)
        if not targets:
            return False
        for dst in targets:
            if kind == 'p_tick':
                puppet.tick(dst, counter=item.get('counter'))
            elif kind == 'p_event':
                puppet.process_event(dst, item['ns'], item['state'], expected=item.get('expected', True),
                                     pid=item.get('pid', 0), dt=item.get('dt', 0.0), claim=item.get('claim'))
            elif kind == 'p_forced':
                puppet.forced_event(dst, item['ns'], item['target'], item['state'], item.get('shift', 0.0),
                                    claim=item.get('claim'))
            elif kind == 'p_removed':
                puppet.removed_event(dst, item['ns'], claim=item.get('claim'))
            elif kind == 'p_added':
                puppet.added_event(dst, item['ns'], item.get('state', 0), claim=item.get('claim'))
            elif kind == 'p_disability':
                puppet.disability_event(dst, item['ns'], item.get('disabled', True), claim=item.get('claim'))
            elif kind == 'p_state':
                puppet.publish_state(dst, override=item.get('modes'), claim=item.get('claim'))
            elif kind == 'p_raw':
                puppet.send(dst, item['comm_type'], item['header'], item['body'],
                            origin=puppet.claimed_origin(item.get('claim')))
            else:
                raise kernel.HarnessError('unknown puppet item %r' % (item,))
        return True

    def _child_exit(self, item):
        sim = self.sim
        inst = sim.instances.get(item['inst'])
        if inst is None or not inst.alive:
            return False
        alive = sorted((c for c in inst.children.values() if c.alive and c.namespec), key=lambda c: c.namespec)
        if item.get('namespec') is not None:
            alive = [c for c in alive if c.namespec == item['namespec']]
        elif alive:
            alive = [alive[item.get('pick', 0) % len(alive)]]
        if not alive:
            return False
        sim._child_exit(inst, alive[0], (item.get('code', 1) & 0xff) << 8)
        return True

    # --- execution ----------------------------------------------------------------------------------
    def execute(self):
        self.schedule()
        try:
            self.sim.run(self.t_end)
            for obs in self.observers:
                obs.finish()
        finally:
            self.closed_digest = self.sim.digest()
            self.sim.close()
        violations = []
        for obs in self.observers:
            violations.extend(obs.violations)
        return violations
