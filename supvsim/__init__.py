"""supvsim: deterministic simulation of N real Supvisors instances in one process."""
