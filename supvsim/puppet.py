"""Puppet peers: declared in supvisors_list like any instance, but with no Supvisors behind them. The simulator
answers their side of the hand-shake from a script and emits whatever publications the plan asks for.

A puppet is the adversarial half of the quantifiers "any order, also orders Supervisor would not produce" (C11),
"all message kinds and orders an isolated or not-yet-admitted peer can send" (C13): the receiving side is always a
real Supvisors instance, reached through the same XML-RPC seam as everything else."""
import json

from .kernel import US, EPOCH

STATE_NAMES = {0: 'STOPPED', 10: 'STARTING', 20: 'RUNNING', 30: 'BACKOFF', 40: 'STOPPING', 100: 'EXITED', 200: 'FATAL',
               1000: 'UNKNOWN'}


def program_of(config, ns):
    """ (program spec, process index) of a namespec of the simulated configuration. """
    group, _, pname = ns.partition(':')
    for g in config['groups']:
        if g['name'] != group:
            continue
        for p in g['programs']:
            n = p.get('numprocs', 1)
            if n == 1 and p['name'] == pname:
                return p, 0
            if n > 1 and pname.startswith(p['name'] + '_'):
                try:
                    return p, int(pname[len(p['name']) + 1:])
                except ValueError:
                    pass
    return None, 0


class Puppet:
    def __init__(self, sim, spec):
        self.sim = sim
        self.spec = spec
        self.nick = spec['nick']
        self.node = sim.nodes[spec['node']]
        self.port = spec['port']
        self.identifier = '%s:%d' % (self.node['host'], self.port)
        self.alive = False
        self.incarnation = 0
        self.counter = 0
        self.sees_caller = 3          # statecode of the caller in this puppet's view (3 = RUNNING, 5 = ISOLATED)
        self.strategies_override = {}  # differences with the caller's strategies
        self.processes = {}           # ns -> info payload (as get_all_local_process_info would give)
        self.auto_tick = True
        self.mirror = True
        self.sent = 0
        self.last_answers = {}        # caller nick -> what this puppet answered at the last hand-shake

    # --- clocks of the puppet's host ------------------------------------------------------------
    def mono(self):
        return self.node['mono'] + self.sim.now_us / US

    def wall(self):
        return EPOCH + self.node['skew'] + self.sim.now_us / US

    @property
    def origin(self):
        return [self.identifier, self.nick, [self.node['ip'], self.port]]

    def claimed_origin(self, claim):
        """ None: the truth. A nick: that instance's origin (spoofed). 'mismatch': own identifier with another
        address. 'unknown': an identifier nobody declared. """
        if claim is None:
            return self.origin
        if claim == 'unknown':
            return ['host99:61000', 'ghost', ['10.9.9.9', 61000]]
        if claim == 'renamed':
            # another spelling of the identifier, resolved through the nick identifier
            return ['%s.alt:%d' % (self.node['host'], self.port), self.nick, [self.node['ip'], self.port]]
        if claim == 'mismatch':
            return [self.identifier, self.nick, ['10.9.9.9', self.port]]
        if claim == 'newnick':
            # same host:port, another nick identifier (the peer restarted under another Supervisor identifier)
            return [self.identifier, '%s_bis' % self.nick, [self.node['ip'], self.port]]
        if claim == 'nickmoved':
            # same nick identifier, another host:port
            return ['%s:%d' % (self.node['host'], self.port + 100), self.nick, [self.node['ip'], self.port + 100]]
        sim = self.sim
        spec = next(s for s in sim.config['instances'] if s['nick'] == claim)
        node = sim.nodes[spec['node']]
        return ['%s:%d' % (node['host'], spec['port']), claim, [node['ip'], spec['port']]]

    # --- process table --------------------------------------------------------------------------
    def make_info(self, ns, state, expected=True):
        prog, index = program_of(self.sim.config, ns)
        group, _, name = ns.partition(':')
        prog = prog or {'name': name}
        now, mono = int(self.wall()), self.mono()
        running = state in (10, 20, 30, 40)
        return {'name': name, 'group': group, 'state': state, 'statename': STATE_NAMES.get(state, 'UNKNOWN'),
                'start': now - 5 if state != 0 else 0, 'stop': 0 if running or state == 0 else now - 1, 'now': now,
                'pid': 4000 + self.sent if running else 0, 'description': '', 'spawnerr': '' if expected else 'boom',
                'expected': expected, 'start_monotonic': mono - 5.0 if state != 0 else 0.0,
                'stop_monotonic': 0.0 if running or state == 0 else mono - 1.0, 'now_monotonic': mono,
                'extra_args': '', 'startsecs': prog.get('startsecs', 1), 'stopwaitsecs': prog.get('stopwaitsecs', 2),
                'process_index': index, 'program_name': prog['name'], 'disabled': False, 'has_stdout': False,
                'has_stderr': False}

    def set_snapshot(self, states):
        self.processes = {ns: self.make_info(ns, st) for ns, st in sorted(states.items())}

    # --- hand-shake answers ---------------------------------------------------------------------
    def answer(self, src, method, params):
        if not self.alive:
            raise ConnectionRefusedError(111, 'Connection refused')
        ns, meth = method.split('.')
        if ns == 'supervisor':
            return True   # sendRemoteCommEvent, stopProcess ...: accepted and ignored
        if meth == 'get_network_info':
            return {'identifier': self.identifier, 'nick_identifier': self.nick, 'host_id': self.node['host'],
                    'http_port': self.port, 'stereotypes': [],
                    'network': {'machine_id': ':'.join('%02x' % b for b in self.node['machine'].to_bytes(6, 'big')),
                                'fqdn': self.node['host'],
                                'addresses': {'eth0': {'host_name': self.node['host'],
                                                       'aliases': ['%s-boot%d' % (self.node['host'], self.incarnation)],
                                                       'ipv4_addresses': [self.node['ip']],
                                                       'nic_info': {'nic_name': 'eth0', 'ipv4_address': self.node['ip'],
                                                                    'netmask': '255.255.255.0'}}}}}
        if meth == 'get_instance_info':
            if src is not None:
                self.last_answers[src.nick] = {'sees': self.sees_caller, 'mismatch': False, 't_us': self.sim.now_us}
            return [{'identifier': params[0], 'statecode': self.sees_caller}]
        if meth == 'get_strategies':
            with self.sim.enter(src):
                base = dict(src.rpcif.get_strategies())
            base.update(self.strategies_override)
            if src is not None and self.strategies_override:
                self.last_answers.setdefault(src.nick, {})['mismatch'] = True
            return base
        if meth == 'get_instance_state_modes':
            return [self.state_modes(src)]
        if meth == 'get_all_local_process_info':
            out = []
            for info in self.processes.values():
                info = dict(info)
                info['now'] = int(self.wall())
                info['now_monotonic'] = self.mono()
                out.append(info)
            return out
        return True   # start_args, stop_process, restart, shutdown ...: accepted and ignored

    def state_modes(self, receiver, override=None):
        """ A polite peer: it agrees with the receiver on everything (same FSM state, Master and instance states). """
        d = {'fsm_statecode': 0, 'fsm_statename': 'OFF', 'degraded_mode': False, 'discovery_mode': False,
             'master_identifier': '', 'starting_jobs': False, 'stopping_jobs': False, 'instance_states': {}}
        if receiver is not None and receiver.alive and receiver.supvisors is not None:
            with self.sim.enter(receiver):
                self.sim.freeze += 1
                try:
                    d = dict(receiver.supvisors.state_modes.local_state_modes.serial())
                finally:
                    self.sim.freeze -= 1
            d['starting_jobs'] = d['stopping_jobs'] = False
        d.update({'identifier': self.identifier, 'nick_identifier': self.nick, 'now_monotonic': self.mono()})
        if override:
            d.update(override)
        return d

    # --- emissions ------------------------------------------------------------------------------
    def send(self, dst_nick, comm_type, header, body, origin=None):
        self.sent += 1
        data = json.dumps((origin or self.origin, (header, body)))
        return self.sim.client_call(dst_nick, 'supervisor.sendRemoteCommEvent', [comm_type, data])

    def tick(self, dst_nick, counter=None, advance=True):
        body = {'when': int(self.wall()), 'when_monotonic': self.mono(),
                'sequence_counter': self.counter if counter is None else counter}
        if advance and counter is None:
            self.counter += 1
        return self.send(dst_nick, 'SupvisorsPublication', 0, body)

    def publish_state(self, dst_nick, override=None, claim=None):
        receiver = self.sim.instances.get(dst_nick)
        return self.send(dst_nick, 'SupvisorsPublication', 7, self.state_modes(receiver, override),
                         origin=self.claimed_origin(claim))

    def process_event(self, dst_nick, ns, state, expected=True, pid=0, dt=0.0, claim=None):
        group, _, name = ns.partition(':')
        origin = self.claimed_origin(claim)
        body = {'identifier': origin[0], 'nick_identifier': origin[1], 'name': name, 'group': group,
                'state': state, 'now': self.wall() + dt, 'now_monotonic': self.mono() + dt, 'pid': pid,
                'expected': expected, 'spawnerr': '' if expected else 'boom', 'extra_args': '', 'disabled': False}
        info = self.processes.get(ns)
        if info is not None and claim is None:
            info.update({'state': state, 'statename': STATE_NAMES.get(state, 'UNKNOWN'), 'expected': expected})
        return self.send(dst_nick, 'SupvisorsPublication', 1, body, origin=origin)

    def forced_event(self, dst_nick, ns, target_nick, state, shift=0.0, claim=None):
        """ What a Master publishes when it gives a start / stop up: the event names the targeted instance and the
        time (in that instance's reference) of the last event the Master had from it. """
        sim = self.sim
        group, _, name = ns.partition(':')
        spec = next(s for s in sim.config['instances'] if s['nick'] == target_nick)
        node = sim.nodes[spec['node']]
        body = {'identifier': '%s:%d' % (node['host'], spec['port']), 'nick_identifier': target_nick,
                'group': group, 'name': name, 'state': state, 'forced': True, 'now': self.wall(),
                'now_monotonic': node['mono'] + sim.now_us / US + shift, 'pid': 0, 'expected': False,
                'spawnerr': 'forced by %s' % self.nick, 'extra_args': ''}
        return self.send(dst_nick, 'SupvisorsPublication', 1, body, origin=self.claimed_origin(claim))

    def removed_event(self, dst_nick, ns, claim=None):
        group, _, name = ns.partition(':')
        if claim is None:
            if name == '*':
                for key in [k for k in self.processes if k.startswith(group + ':')]:
                    del self.processes[key]
            else:
                self.processes.pop(ns, None)
        return self.send(dst_nick, 'SupvisorsPublication', 3, {'group': group, 'name': name},
                         origin=self.claimed_origin(claim))

    def added_event(self, dst_nick, ns, state=0, claim=None):
        info = self.make_info(ns, state)
        if claim is None:
            self.processes[ns] = info
        return self.send(dst_nick, 'SupvisorsPublication', 2, dict(info), origin=self.claimed_origin(claim))

    def disability_event(self, dst_nick, ns, disabled=True, claim=None):
        info = dict(self.processes.get(ns) or self.make_info(ns, 0))
        info['disabled'] = disabled
        info['now'] = int(self.wall())
        info['now_monotonic'] = self.mono()
        return self.send(dst_nick, 'SupvisorsPublication', 4, info, origin=self.claimed_origin(claim))
