"""Kernel of the deterministic simulator: clock, scheduler, instances, proxies, RPC transport, children.

One `Sim` object = one run = a pure function of (config, plan, seed).
All code of /repo runs for real; see DESIGN.md section 3 for the real/stub table.
"""
import collections
import errno
import hashlib
import heapq
import json
import os
import random
import shutil
import signal
import sys
import tempfile
import threading
import traceback
import types
import time as real_time
import socket as real_socket
import uuid as real_uuid
import xmlrpc.client as xc

US = 1000000
EPOCH = 1000000000  # simulated wall clock origin (s)

_INSTALLED = False
_CUR_SIM = None  # the Sim whose code is running (one per process at a time)


class HarnessError(Exception):
    """ A problem of the simulator itself: never a VIOLATION, never a pass. """


class _Killed(BaseException):
    """ Used to unwind a parked helper thread whose owner crashed. """


# ---------------------------------------------------------------------------------------------------
# clock seam
class SimTimeModule(types.ModuleType):
    """ Stands for the `time` module inside supvisors.* / supervisor.* modules. """

    def __init__(self):
        super().__init__('time')

    @staticmethod
    def time():
        sim = _CUR_SIM
        if sim is None:
            return real_time.time()
        return sim.read_wall()

    @staticmethod
    def monotonic():
        sim = _CUR_SIM
        if sim is None:
            return real_time.monotonic()
        return sim.read_mono()

    @staticmethod
    def sleep(_):
        raise HarnessError('time.sleep called on a simulated path')

    def __getattr__(self, name):
        # strftime, localtime(x), gmtime(x) ... : pure functions of their argument
        if name in ('strftime', 'localtime', 'gmtime', 'mktime', 'struct_time', 'timezone', 'altzone', 'daylight',
                    'tzname', 'ctime', 'asctime'):
            return getattr(real_time, name)
        raise AttributeError(name)


SIM_TIME = SimTimeModule()


# ---------------------------------------------------------------------------------------------------
# host identity seam (mapper.socket / mapper.uuid / mapper.get_network_info)
class FakeSocketModule(types.ModuleType):
    herror = real_socket.herror
    gaierror = real_socket.gaierror
    AF_INET = real_socket.AF_INET
    SOCK_DGRAM = real_socket.SOCK_DGRAM
    SHUT_RDWR = real_socket.SHUT_RDWR

    def __init__(self):
        super().__init__('socket')

    @staticmethod
    def _node():
        sim = _CUR_SIM
        if sim is None or sim.cur is None:
            raise HarnessError('socket seam used outside an instance context')
        return sim.cur.node

    @staticmethod
    def gethostname():
        return FakeSocketModule._node()['host']

    @staticmethod
    def getfqdn(name=None):
        if name:
            return name
        return FakeSocketModule._node()['host']

    @staticmethod
    def gethostbyaddr(host_id):
        sim = _CUR_SIM
        for node in sim.nodes:
            if host_id in (node['host'], node['ip']):
                return node['host'], [], [node['ip']]
        raise real_socket.gaierror(-2, 'Name or service not known')

    @staticmethod
    def inet_ntoa(x):
        return real_socket.inet_ntoa(x)

    @staticmethod
    def if_nameindex():
        return [(1, 'lo'), (2, 'eth0')]

    @staticmethod
    def socket(*_a, **_k):
        raise HarnessError('real socket requested on a simulated path')


class FakeUuidModule(types.ModuleType):
    def __init__(self):
        super().__init__('uuid')

    @staticmethod
    def getnode():
        return FakeSocketModule._node()['machine']


def _fake_get_network_info():
    from supvisors.internal_com.mapper import NicInformation
    node = FakeSocketModule._node()
    yield NicInformation('eth0', node['ip'], '255.255.255.0')


FAKE_SOCKET = FakeSocketModule()
FAKE_UUID = FakeUuidModule()


# ---------------------------------------------------------------------------------------------------
def install():
    """ Import everything eagerly, then rebind the seams. Idempotent. """
    global _INSTALLED
    if _INSTALLED:
        return
    # eager imports: a lazily imported module would keep the real `time`
    import supervisor.supervisord, supervisor.process, supervisor.rpcinterface, supervisor.options  # noqa
    import supervisor.events, supervisor.xmlrpc, supervisor.http, supervisor.loggers, supervisor.dispatchers  # noqa
    import supervisor.states, supervisor.datatypes, supervisor.childutils  # noqa
    import supvisors.plugin, supvisors.statscollector, supvisors.statscompiler, supvisors.strategy  # noqa
    import supvisors.statemachine, supvisors.statemodes, supvisors.commander, supvisors.context  # noqa
    import supvisors.rpcinterface, supvisors.sparser, supvisors.supervisorupdater, supvisors.utils  # noqa
    import supvisors.internal_com.mapper as mapper
    import supvisors.internal_com.supervisorproxy as sp
    import supvisors.internal_com.multicast, supvisors.external_com  # noqa
    for name, mod in list(sys.modules.items()):
        if (name.startswith('supvisors') or name.startswith('supervisor')) and mod is not None:
            if name.startswith('supvisors.tests') or name.startswith('supervisor.tests'):
                continue
            if getattr(mod, 'time', None) is real_time:
                mod.time = SIM_TIME
    mapper.socket = FAKE_SOCKET
    mapper.uuid = FAKE_UUID
    mapper.get_network_info = _fake_get_network_info
    import supvisors.supervisordata as sdata
    sdata.socket = FAKE_SOCKET
    sp.SupervisorProxyServer.klass = _make_simproxy_class()
    from supvisors import plugin
    plugin.apply_patches()
    # the real code keeps ProcessStatus / ApplicationStatus objects in sets (failed processes, conflicts): the default hash is
    # the memory address, so their iteration order changes from one execution to the next. Identity semantics are kept
    # (no __eq__), only the hash is made a function of the name (string hashes are pinned by PYTHONHASHSEED=0)
    import supvisors.process as sproc
    import supvisors.application as sapp
    if '__eq__' not in sproc.ProcessStatus.__dict__:
        sproc.ProcessStatus.__hash__ = lambda self: hash(('process', self.application_name, self.process_name))
    if '__eq__' not in sapp.ApplicationStatus.__dict__:
        sapp.ApplicationStatus.__hash__ = lambda self: hash(('application', self.application_name))
    _INSTALLED = True


def check_seams():
    """ Forgotten-seam detector (DESIGN section 5): called at the start of every run. """
    import supvisors.internal_com.mapper as mapper
    bad = []
    for name, mod in list(sys.modules.items()):
        if (name.startswith('supvisors') or name.startswith('supervisor')) and mod is not None:
            if name.startswith('supvisors.tests') or name.startswith('supervisor.tests'):
                continue
            if getattr(mod, 'time', None) is real_time:
                bad.append(name + '.time')
    if mapper.socket is not FAKE_SOCKET or mapper.uuid is not FAKE_UUID:
        bad.append('mapper.socket/uuid')
    if bad:
        raise HarnessError('modules holding a real seam: %s' % bad)


def hash64(*key):
    h = hashlib.blake2b(repr(key).encode(), digest_size=8).digest()
    return int.from_bytes(h, 'big')


# ---------------------------------------------------------------------------------------------------
class MemLogger:
    """ Replaces supervisord.options.logger; records (t_us, level, text). """
    from supervisor.loggers import LevelsByName as _L
    CRIT, ERRO, WARN, INFO, DEBG, TRAC, BLAT = _L.CRIT, _L.ERRO, _L.WARN, _L.INFO, _L.DEBG, _L.TRAC, _L.BLAT

    def __init__(self, sim, inst, level):
        self.sim = sim
        self.inst = inst
        self.level = level
        self.handlers = []
        self.records = []
        self.crit = []

    def log(self, level, msg, **kw):
        if level >= self.CRIT:
            if kw:
                msg = msg % kw
            self.crit.append((self.sim.now_us, str(msg)))
        if level >= self.level:
            if kw:
                try:
                    msg = msg % kw
                except Exception:
                    pass
            self.records.append((self.sim.now_us, level, str(msg)))

    def close(self):
        pass

    def reopen(self):
        pass

    def remove(self):
        pass

    def getvalue(self):
        return ''

    def addHandler(self, _):
        pass

    def blather(self, msg, **kw):
        if self.BLAT >= self.level:
            self.log(self.BLAT, msg, **kw)

    def trace(self, msg, **kw):
        if self.TRAC >= self.level:
            self.log(self.TRAC, msg, **kw)

    def debug(self, msg, **kw):
        if self.DEBG >= self.level:
            self.log(self.DEBG, msg, **kw)

    def info(self, msg, **kw):
        if self.INFO >= self.level:
            self.log(self.INFO, msg, **kw)

    def warn(self, msg, **kw):
        self.log(self.WARN, msg, **kw)

    def error(self, msg, **kw):
        self.log(self.ERRO, msg, **kw)

    def critical(self, msg, **kw):
        self.log(self.CRIT, msg, **kw)


class _FakeSock:
    def shutdown(self, *_):
        pass

    def close(self):
        pass


class _FakeHandler:
    def __init__(self, rpc):
        self.rpcinterface = rpc


class FakeHttpServer:
    def __init__(self, rpc):
        self.handlers = [_FakeHandler(rpc), None, None, None, None]
        self.socket = _FakeSock()

    def close(self):
        pass


# ---------------------------------------------------------------------------------------------------
class SimChild:
    __slots__ = ('pid', 'namespec', 'script', 'alive', 'born_us', 'exit_us', 'sts', 'killed_by')

    def __init__(self, pid, born_us):
        self.pid = pid
        self.namespec = None
        self.script = None
        self.alive = True
        self.born_us = born_us
        self.exit_us = None
        self.sts = None
        self.killed_by = None


def _make_options_class():
    from supervisor.options import ServerOptions

    class SimServerOptions(ServerOptions):
        """ Process spawning / signalling / reaping seam. Config parsing stays real. """
        sim = None
        inst = None

        def fork(self):
            return self.sim.child_fork(self.inst)

        def make_pipes(self, stderr=True):
            return {'child_stdin': None, 'stdin': None, 'stdout': None, 'child_stdout': None,
                    'stderr': None, 'child_stderr': None}

        def close_parent_pipes(self, pipes):
            pass

        def close_child_pipes(self, pipes):
            pass

        def close_fd(self, fd):
            pass

        def kill(self, pid, sig):
            self.sim.child_kill(self.inst, pid, sig)

        def waitpid(self):
            return self.sim.child_waitpid(self.inst)

        def stat(self, filename):
            return os.stat('/bin/sh')

        def check_execv_args(self, filename, argv, st):
            self.sim.child_check_exec(self.inst, filename, argv)

        def get_signal(self):
            return None

        def cleanup_fds(self):
            pass

        def openhttpservers(self, supervisord):
            raise HarnessError('openhttpservers on a simulated path')

    return SimServerOptions


_OPTIONS_CLASS = None


# ---------------------------------------------------------------------------------------------------
def _make_simproxy_class():
    from supvisors.internal_com.supervisorproxy import SupervisorProxy, SupervisorProxyThread

    class SimProxy(SupervisorProxy):
        """ The real SupervisorProxy logic, without thread and queue: the simulator owns both. """

        def __init__(self, status, supvisors):
            SupervisorProxy.__init__(self, status, supvisors)
            self.sim = _CUR_SIM
            self.inst = self.sim.cur
            self.queue = collections.deque()
            self.busy = False
            self.stopped = False
            self.closed = False
            self.dead = False  # an exception escaped process_event: a real thread would have died
            self.target_identifier = status.identifier

        # thread API used by SupervisorProxyServer
        def start(self):
            self.sim.stats['proxy_started'] += 1

        def stop(self):
            self.stopped = True

        def join(self, timeout=None):
            # the main thread would block until the in-flight message ends; the entry is removed when the thread
            # exits. Messages still queued are lost (the loop tests stop_event before each get).
            if not self.busy:
                self._close()

        def is_alive(self):
            return not self.closed

        def _close(self):
            if not self.closed:
                self.closed = True
                if self.queue:
                    dropped = list(self.queue)
                    for obs in self.sim.observers:
                        f = getattr(obs, 'on_proxy_drop', None)
                        if f:
                            f(self.sim, self.inst, self, dropped)
                self.queue.clear()
                try:
                    self.supvisors.rpc_handler.proxy_server.on_proxy_closing(self.status.identifier)
                except KeyError:
                    pass

        def push_message(self, message):
            self.queue.append(message)
            self.sim.proxy_kick(self)

        def _get_proxy(self):
            return SimServerProxy(self.sim, self.inst, self)

        process_event = SupervisorProxyThread.process_event
        handle_exception = SupervisorProxyThread.handle_exception

    return SimProxy


class _Namespace:
    def __init__(self, sp, ns):
        self._sp = sp
        self._ns = ns

    def __getattr__(self, meth):
        sp, ns = self._sp, self._ns

        def call(*args):
            return sp.sim.rpc_from_proxy(sp.inst, sp.proxy, '%s.%s' % (ns, meth), args)
        return call


class SimServerProxy:
    """ Stands for xmlrpc.client.ServerProxy: routes calls through the simulated network. """

    def __init__(self, sim, inst, proxy):
        self.sim = sim
        self.inst = inst
        self.proxy = proxy
        self.supervisor = _Namespace(self, 'supervisor')
        self.supvisors = _Namespace(self, 'supvisors')
        self.system = _Namespace(self, 'system')


# ---------------------------------------------------------------------------------------------------
class Helper:
    """ A real thread running one multi-RPC proxy job (check_instance), parked at every RPC (baton passing). """

    def __init__(self, sim, inst, proxy, fn):
        self.sim = sim
        self.inst = inst
        self.proxy = proxy
        self.fn = fn
        self.sem = threading.Semaphore(0)
        self.done = False
        self.killed = False
        self.exc = None
        self.ctx = [inst]
        self.thread = threading.Thread(target=self._main, daemon=True)
        self.thread.start()

    def _main(self):
        self.sem.acquire()
        try:
            if not self.killed:
                self.fn()
        except _Killed:
            pass
        except BaseException as exc:  # noqa
            self.exc = exc
            self.exc_tb = traceback.format_exc()
        self.done = True
        self.sim.sched_sem.release()

    def resume(self):
        """ Called by the scheduler thread: run the helper until it parks again or ends. """
        sim = self.sim
        saved_ctx, saved_helper = sim.ctx, sim.cur_helper
        sim.ctx, sim.cur_helper = self.ctx, self
        sim._sync_callbacks()
        self.sem.release()
        sim.sched_sem.acquire()
        self.ctx = sim.ctx
        sim.ctx, sim.cur_helper = saved_ctx, saved_helper
        sim._sync_callbacks()

    def park(self):
        """ Called in the helper thread. """
        self.sim.sched_sem.release()
        self.sem.acquire()
        if self.killed:
            raise _Killed()


# ---------------------------------------------------------------------------------------------------
class Instance:
    """ One supervisord + Supvisors incarnation. """

    def __init__(self, sim, spec, incarnation):
        self.sim = sim
        self.spec = spec
        self.nick = spec['nick']
        self.node = sim.nodes[spec['node']]
        self.port = spec['port']
        self.identifier = '%s:%d' % (self.node['host'], self.port)
        self.incarnation = incarnation
        self.callbacks = []
        self.alive = False
        self.sd = None
        self.supvisors = None
        self.rpc = None
        self.rpcif = None  # Supvisors RPCInterface
        self.logger = None
        self.children = {}
        self.exited = collections.deque()
        self.deferred = []
        self.stalled_until = 0
        self.exit_mood = None
        self.boot_us = None
        self.end_us = None
        self.stopping_notified_us = None
        self.proxies_seen = []

    def __repr__(self):
        return '<Inst %s#%d>' % (self.nick, self.incarnation)

    @property
    def serving(self):
        return self.alive and bool(self.sd.options.httpservers)

    # --- boot -----------------------------------------------------------------------------------
    def boot(self):
        global _OPTIONS_CLASS
        from supervisor import events
        from supervisor.supervisord import Supervisor
        from supervisor.states import SupervisorStates
        from supervisor.xmlrpc import RootRPCInterface, SystemNamespaceRPCInterface
        sim = self.sim
        if _OPTIONS_CLASS is None:
            _OPTIONS_CLASS = _make_options_class()
        conf = sim.materialize(self)
        argv = ['-c', conf, '-n']
        saved_argv = sys.argv
        sys.argv = ['supervisord'] + argv
        try:
            with sim.enter(self):
                opts = _OPTIONS_CLASS()
                opts.sim = sim
                opts.inst = self
                opts.realize(argv, doc='')
                self.logger = MemLogger(sim, self, sim.log_level)
                opts.logger = self.logger
                sd = Supervisor(opts)
                self.sd = sd
                sd.process_groups = {}
                sd.stop_groups = None
                for config in opts.process_group_configs:
                    sd.add_process_group(config)
                subs = []
                for name, factory, d in opts.rpcinterface_factories:
                    subs.append((name, factory(sd, **d)))
                subs.append(('system', SystemNamespaceRPCInterface(subs)))
                self.rpc = RootRPCInterface(subs)
                self.supvisors = sd.supvisors
                self.rpcif = self.rpc.supvisors
                self._tap_publications()
                opts.httpservers = [(opts.server_configs[0], FakeHttpServer(self.rpc))]
                opts.mood = SupervisorStates.RUNNING
                # statistics collector seam: never fork a psutil process
                self._install_collector()
                self.alive = True
                self.boot_us = sim.now_us
                sim.on_boot(self)
                events.notify(events.SupervisorRunningEvent())
        finally:
            sys.argv = saved_argv

    def _tap_publications(self):
        """ Record every publication at its source (before the proxies filter by peer state). """
        handler = self.supvisors.rpc_handler
        orig = handler.push_publication
        inst, sim = self, self.sim

        def push_publication(ptype, body):
            sim.on_publication(inst, ptype, body)
            return orig(ptype, body)
        handler.push_publication = push_publication
        orig_req = handler.push_request

        def push_request(identifier, request_type, request_body=None):
            sim.on_request(inst, identifier, request_type, request_body)
            return orig_req(identifier, request_type, request_body)
        handler.push_request = push_request

    def _install_collector(self):
        sv = self.supvisors
        coll = self.sim.make_collector(self) if self.sim.make_collector else None
        sv.stats_collector = coll
        sv.context.local_status.stats_collector = coll

    # --- main loop ------------------------------------------------------------------------------
    def loop_tail(self):
        """ What runforever does after the poll: transitions, reap, tick, stop phases. Context must be entered. """
        from supervisor import events
        from supervisor.states import SupervisorStates
        sd = self.sd
        pgroups = sorted(sd.process_groups.values())
        if sd.options.mood < SupervisorStates.RUNNING:
            if not sd.stopping:
                sd.stopping = True
                sd.stop_groups = pgroups[:]
                self.stopping_notified_us = self.sim.now_us
                events.notify(events.SupervisorStoppingEvent())
            sd.ordered_stop_groups_phase_1()
            if not sd.shutdown_report():
                self.sim.instance_exit(self)
                return
        self._poll_deferred()
        for group in pgroups:
            group.transition()
        sd.reap()
        sd.tick()
        if sd.options.mood < SupervisorStates.RUNNING:
            sd.ordered_stop_groups_phase_2()

    def _poll_deferred(self):
        from supervisor.http import NOT_DONE_YET
        from supervisor.xmlrpc import RPCError
        if not self.deferred:
            return
        still = []
        for rec, fn in self.deferred:
            try:
                value = fn()
            except RPCError as exc:
                rec['fault'] = (exc.code, exc.text)
                rec['done_us'] = self.sim.now_us
                continue
            except Exception:  # noqa
                rec['internal_error'] = traceback.format_exc()
                rec['done_us'] = self.sim.now_us
                self.sim.note_internal_error(self, 'deferred:' + rec['method'], rec['internal_error'])
                continue
            if value is NOT_DONE_YET:
                still.append((rec, fn))
            else:
                rec['result'] = value
                rec['done_us'] = self.sim.now_us
        self.deferred = still


# ---------------------------------------------------------------------------------------------------
class _Enter:
    __slots__ = ('sim', 'inst')

    def __init__(self, sim, inst):
        self.sim = sim
        self.inst = inst

    def __enter__(self):
        sim = self.sim
        sim.ctx.append(self.inst)
        sim._sync_callbacks()
        return self.inst

    def __exit__(self, *_):
        sim = self.sim
        sim.ctx.pop()
        sim._sync_callbacks()
        return False


class Sim:
    """ One deterministic run. """

    def __init__(self, config, seed, log_level=None, scratch=None):
        global _CUR_SIM
        install()
        check_seams()
        from supervisor.loggers import LevelsByName
        self.config = config
        self.seed = seed
        self.nodes = config['nodes']
        self.log_level = LevelsByName.WARN if log_level is None else log_level
        self.now_us = 0
        self.heap = []
        self.seq = 0
        self.ctx = []
        self.cur_helper = None
        self.freeze = 0
        self.cur_event_seq = 0
        self.spawn_count = collections.Counter()
        self.spawn_total = collections.Counter()
        self.sched_sem = threading.Semaphore(0)
        self.helpers = []
        self.rngs = {}
        self.stats = collections.Counter()
        self.probes = collections.Counter()
        self.instances = {}      # nick -> current Instance (alive or not)
        self.by_identifier = {}  # identifier -> nick
        self.graveyard = []
        self.wire = []           # RPC records
        self.oplog = []          # client operations
        self.internal_errors = []
        self.observers = []
        self.cuts = set()        # blocked directed connections (src_nick, dst_nick)
        self.blackhole = {}      # (src,dst) -> us until which callers block
        self.slow = {}           # (src,dst) -> extra seconds
        self.next_pid = collections.Counter()
        self.puppets = {}
        self.make_collector = None
        self.event_drop = None   # callable(src_inst, dst_nick, header, body) -> bool
        self.rpc_filter = None   # callable(rec) -> None|'fault'|'resp_lost'
        self.steps = 0
        self.max_steps = config.get('max_steps', 400000)
        self.aborted = None      # set to a reason when the run is cut short (e.g. request storm)
        self.storm_times = {}
        self.storm = None
        self.wall0 = real_time.time()
        self.wall_cap = config.get('wall_cap', 150.0)
        self.scratch = scratch or tempfile.mkdtemp(prefix='supvsim-')
        self._own_scratch = scratch is None
        self.ev_digest = hashlib.sha256()
        self.trace = None        # optional list of event descriptions
        self.lat = config.get('latency', {'lo': 0.0002, 'hi': 0.02})
        for idx, spec in enumerate(config['instances']):
            node = self.nodes[spec['node']]
            self.by_identifier['%s:%d' % (node['host'], spec['port'])] = spec['nick']
        for spec in config['instances']:
            if spec.get('puppet'):
                from .puppet import Puppet
                self.puppets[spec['nick']] = Puppet(self, spec)
        _CUR_SIM = self

    # --- context --------------------------------------------------------------------------------
    @property
    def cur(self):
        return self.ctx[-1] if self.ctx else None

    def enter(self, inst):
        return _Enter(self, inst)

    def _sync_callbacks(self):
        from supervisor import events
        if self.ctx:
            events.callbacks = self.ctx[-1].callbacks
        else:
            events.callbacks = _NO_CALLBACKS

    # --- clock ----------------------------------------------------------------------------------
    def read_wall(self):
        if not self.freeze:
            self.now_us += 1
        inst = self.cur
        skew = inst.node['skew'] + inst.node.get('jump', 0.0) if inst is not None else 0.0
        return EPOCH + skew + self.now_us / US

    def read_mono(self):
        if not self.freeze:
            self.now_us += 1
        inst = self.cur
        off = inst.node['mono'] if inst is not None else 0.0
        return off + self.now_us / US

    @property
    def now(self):
        return self.now_us / US

    # --- randomness -----------------------------------------------------------------------------
    def rng(self, *key):
        r = self.rngs.get(key)
        if r is None:
            r = self.rngs[key] = random.Random(hash64(self.seed, key))
        return r

    # --- scheduling -----------------------------------------------------------------------------
    def at_us(self, t_us, fn, *args):
        self.seq += 1
        if t_us < self.now_us:
            t_us = self.now_us
        heapq.heappush(self.heap, (t_us, self.seq, fn, args))

    def after(self, delay_s, fn, *args):
        self.at_us(self.now_us + int(delay_s * US), fn, *args)

    def at(self, t_s, fn, *args):
        self.at_us(int(t_s * US), fn, *args)

    def run(self, until_s):
        until_us = int(until_s * US)
        heap = self.heap
        while heap and heap[0][0] <= until_us and self.aborted is None:
            t_us, seq, fn, args = heapq.heappop(heap)
            if t_us > self.now_us:
                self.now_us = t_us
            self.steps += 1
            if self.steps > self.max_steps:
                raise HarnessError('step cap reached (%d)' % self.max_steps)
            if not self.steps & 1023 and real_time.time() - self.wall0 > self.wall_cap:
                raise HarnessError('wall cap reached (%.0f s) at sim t=%.1f after %d steps'
                                   % (self.wall_cap, self.now, self.steps))
            self.cur_event_seq = seq
            fn(*args)
        if self.now_us < until_us and self.aborted is None:
            self.now_us = until_us

    def note(self, *items):
        """ Feed the determinism digest (and the optional trace). Never draws, never reads a clock. """
        s = repr(items)
        self.ev_digest.update(s.encode())
        if self.trace is not None:
            self.trace.append((self.now_us,) + items)

    def digest(self):
        return self.ev_digest.hexdigest()

    # --- configuration files --------------------------------------------------------------------
    def materialize(self, inst):
        from . import gen
        return gen.write_instance_files(self, inst)

    # --- instances ------------------------------------------------------------------------------
    def boot_instance(self, nick):
        spec = next(s for s in self.config['instances'] if s['nick'] == nick)
        old = self.instances.get(nick)
        if old is not None and old.alive:
            return old
        inc = old.incarnation + 1 if old is not None else 0
        inst = Instance(self, spec, inc)
        self.instances[nick] = inst
        self.note('boot', nick, inc)
        self.stats['boot'] += 1
        inst.boot()
        self._after_event(inst, 'boot')
        # periodic loop slices with a per-incarnation phase
        phase = self.rng('phase', nick, inc).random()
        self.after(phase, self._slice, inst)
        return inst

    def on_boot(self, inst):
        for obs in self.observers:
            f = getattr(obs, 'on_boot', None)
            if f:
                f(self, inst)

    def on_publication(self, inst, ptype, body):
        for obs in self.observers:
            f = getattr(obs, 'on_publication', None)
            if f:
                f(self, inst, ptype, body)

    def on_request(self, inst, identifier, rtype, body):
        for obs in self.observers:
            f = getattr(obs, 'on_request', None)
            if f:
                f(self, inst, identifier, rtype, body)

    def _slice(self, inst):
        if not inst.alive:
            return
        if inst.stalled_until > self.now_us:
            self.at_us(inst.stalled_until, self._slice, inst)
            return
        with self.enter(inst):
            inst.loop_tail()
        self._after_event(inst, 'slice')
        if inst.alive:
            self.after(1.0, self._slice, inst)

    def wake(self, inst):
        """ Something happened for the main loop (SIGCHLD): run a slice now, out of the periodic train. """
        self.at_us(self.now_us, self._wake, inst)

    def _wake(self, inst):
        if not inst.alive:
            return
        if inst.stalled_until > self.now_us:
            self.at_us(inst.stalled_until, self._wake, inst)
            return
        with self.enter(inst):
            inst.loop_tail()
        self._after_event(inst, 'wake')

    def _after_event(self, inst, kind):
        for obs in self.observers:
            obs.after_event(self, inst, kind)

    def instance_exit(self, inst):
        """ The supervisord main loop ended (shutdown or restart). Called within the instance context. """
        from supervisor.states import SupervisorStates
        mood = inst.sd.options.mood
        inst.exit_mood = mood
        # rpc_handler.stop() joined every proxy thread: a message already dequeued (in flight) is delivered before the
        # thread ends, the messages still queued are lost
        for proxy in list(inst.proxies_seen):
            if proxy.busy and proxy.queue and not proxy.dead:
                event = proxy.queue.popleft()
                try:
                    proxy.process_event(event)
                except Exception:  # noqa
                    pass
            if proxy.queue:
                dropped = list(proxy.queue)
                for obs in self.observers:
                    f = getattr(obs, 'on_proxy_drop', None)
                    if f:
                        f(self, inst, proxy, dropped)
        self._bury(inst, 'exit')
        self.note('exit', inst.nick, mood)
        self.stats['exit_restart' if mood == SupervisorStates.RESTARTING else 'exit_shutdown'] += 1
        if mood == SupervisorStates.RESTARTING:
            delay = self.rng('reboot', inst.nick, inst.incarnation).uniform(0.3, 3.0)
            self.after(delay, self.boot_instance, inst.nick)

    def crash(self, nick):
        inst = self.instances.get(nick)
        if inst is None or not inst.alive:
            return False
        self.note('crash', nick)
        self.stats['crash'] += 1
        self._bury(inst, 'crash')
        return True

    def _bury(self, inst, why):
        inst.alive = False
        inst.end_us = self.now_us
        inst.end_why = why
        for child in inst.children.values():
            child.alive = False
        # discard queues and unwind parked helpers of this instance
        for proxy in inst.proxies_seen:
            proxy.queue.clear()
            proxy.closed = True
        for helper in self.helpers:
            if helper.inst is inst and not helper.done:
                helper.killed = True
                self.at_us(self.now_us, self._reap_helper, helper)
        self.graveyard.append(inst)
        for obs in self.observers:
            f = getattr(obs, 'on_end', None)
            if f:
                f(self, inst, why)

    def _reap_helper(self, helper):
        if not helper.done:
            helper.resume()

    def quiescent(self):
        """ No message queued or in flight anywhere, no hand-shake in progress. """
        for helper in self.helpers:
            if not helper.done:
                return False
        for inst in self.instances.values():
            if not inst.alive:
                continue
            for proxy in inst.proxies_seen:
                if proxy.closed or proxy.dead:
                    continue
                if proxy.busy or proxy.queue:
                    return False
        return True

    def live(self):
        return [i for i in self.instances.values() if i.alive]

    def inst_by_identifier(self, identifier):
        nick = self.by_identifier.get(identifier)
        if nick is None:
            return None
        return self.instances.get(nick)

    # --- children -------------------------------------------------------------------------------
    def child_fork(self, inst):
        host = inst.node['host']
        self.next_pid[host] += 1
        pid = 1000 + self.next_pid[host]
        child = SimChild(pid, self.now_us)
        inst.children[pid] = child
        self.stats['fork'] += 1
        self.at_us(self.now_us, self._child_born, inst, child)
        return pid

    def child_check_exec(self, inst, filename, argv):
        # the script of the process about to be spawned may say "exec fails"
        from supervisor.options import NotFound
        key = argv[1] if len(argv) > 1 else ''
        script = self.child_script(inst, key, peek=True)
        if script.get('exec_fail'):
            self.spawn_count[(inst.nick, key)] += 1
            self.stats['exec_fail'] += 1
            raise NotFound("can't find command %r" % filename)

    def _child_born(self, inst, child):
        if not inst.alive or not child.alive:
            return
        proc = inst.sd.options.pidhistory.get(child.pid)
        if proc is None:
            return
        from supervisor.options import make_namespec
        child.namespec = make_namespec(proc.group.config.name, proc.config.name)
        key = self.proc_key(proc)
        script = self.child_script(inst, key)
        child.script = script
        self.note('born', inst.nick, child.namespec, child.pid)
        for obs in self.observers:
            f = getattr(obs, 'on_child', None)
            if f:
                f(self, inst, child, 'born')
        exit_after = script.get('exit_after')
        if exit_after is not None:
            jitter = self.rng('child', inst.nick, child.namespec).uniform(0.0, 0.2)
            self.after(exit_after + jitter, self._child_exit, inst, child, (script.get('exit_code', 0) & 0xff) << 8)

    @staticmethod
    def proc_key(proc):
        """ 'group:process_name' as written in the command line by the config generator. """
        return '%s:%s' % (proc.group.config.name, proc.config.name)

    def child_script(self, inst, key, peek=False):
        """ Behaviour of the next child of process `key` (group:process) on this instance.
        Lookup: 'key@nick', 'key', 'group:program', '*'; a script may hold a list 'seq' indexed by spawn count. """
        scripts = self.config.get('children', {})
        script = None
        group, _, pname = key.partition(':')
        base = pname.rsplit('_', 1)[0] if '_' in pname else pname
        for k in ('%s@%s' % (key, inst.nick), key, '%s:%s@%s' % (group, base, inst.nick), '%s:%s' % (group, base), '*'):
            if k in scripts:
                script = scripts[k]
                break
        if script is None:
            return {}
        # crash-loop guard: a program that exits on its own and is restarted at once by Supervisor (autorestart, startsecs 0)
        # would spawn thousands of children per run; after 120 spawns of one process the child behaves (stays up)
        if not peek and 'seq' not in script:
            self.spawn_total[(inst.nick, key)] += 1
        if self.spawn_total[(inst.nick, key)] > 120 and ('exit_after' in script or 'exec_fail' in script):
            self.probes['crash_loop_guard'] += 0 if peek else 1
            return {k: v for k, v in script.items() if k not in ('exit_after', 'exit_code', 'exec_fail')}
        if 'seq' in script:
            n = self.spawn_count[(inst.nick, key)]
            seq = script['seq']
            chosen = seq[min(n, len(seq) - 1)]
            if not peek:
                self.spawn_count[(inst.nick, key)] += 1
            return chosen
        return script

    def _child_exit(self, inst, child, sts):
        if not inst.alive or not child.alive:
            return
        child.alive = False
        child.exit_us = self.now_us
        child.sts = sts
        inst.exited.append((child.pid, sts))
        self.note('child_exit', inst.nick, child.namespec, child.pid, sts)
        self.stats['child_exit'] += 1
        for obs in self.observers:
            f = getattr(obs, 'on_child', None)
            if f:
                f(self, inst, child, 'exit')
        self.wake(inst)

    def child_kill(self, inst, pid, sig):
        pid = abs(pid)
        child = inst.children.get(pid)
        if child is None:
            raise OSError(errno.ESRCH, 'No such process')
        self.stats['kill'] += 1
        if not child.alive:
            return
        script = child.script if child.script is not None else self.child_script_for_pid(inst, pid)
        child.killed_by = sig
        if sig == signal.SIGKILL:
            self.after(0.001, self._child_exit, inst, child, int(signal.SIGKILL))
            return
        on_stop = script.get('on_stop', ['exit', 0.05])
        if on_stop[0] == 'exit':
            self.after(on_stop[1], self._child_exit, inst, child, int(sig))
        # 'ignore': nothing happens until SIGKILL

    def child_script_for_pid(self, inst, pid):
        proc = inst.sd.options.pidhistory.get(pid)
        if proc is None:
            return {}
        return self.child_script(inst, self.proc_key(proc), peek=True)

    def child_waitpid(self, inst):
        if inst.exited:
            pid, sts = inst.exited.popleft()
            inst.children.pop(pid, None)
            return pid, sts
        return None, None

    # --- network --------------------------------------------------------------------------------
    def latency(self, src_nick, dst_nick):
        r = self.rng('lat', src_nick, dst_nick)
        if src_nick == dst_nick:
            return r.uniform(0.0001, 0.002)
        lo, hi = self.lat['lo'], self.lat['hi']
        # log-uniform like: mostly short, sometimes long
        d = lo + (hi - lo) * (r.random() ** 3)
        d += self.slow.get((src_nick, dst_nick), 0.0)
        return d

    def connectable(self, src_nick, dst_nick):
        return (src_nick, dst_nick) not in self.cuts

    def blocked_until(self, src_nick, dst_nick):
        """ Blackhole link: the caller blocks until heal or TCP time-out. Returns a time (us) or None. """
        ent = self.blackhole.get((src_nick, dst_nick)) if self.blackhole else None
        if ent is None:
            return None
        if ent > self.now_us:
            return ent
        return None

    # --- proxies --------------------------------------------------------------------------------
    def proxy_kick(self, proxy):
        inst = proxy.inst
        if proxy not in inst.proxies_seen:
            inst.proxies_seen.append(proxy)
        if proxy.busy or proxy.closed or proxy.dead or not inst.alive:
            return
        if not proxy.queue:
            return
        proxy.busy = True
        dst_nick = self.by_identifier.get(proxy.target_identifier)
        d = self.latency(inst.nick, dst_nick if dst_nick else inst.nick)
        self.after(d, self._proxy_exec, proxy)

    def _proxy_exec(self, proxy):
        from supvisors.internal_com.supervisorproxy import InternalEventHeaders
        from supvisors.ttypes import RequestHeaders
        inst = proxy.inst
        if not inst.alive or proxy.closed:
            proxy.busy = False
            return
        if proxy.stopped:
            # the loop tests stop_event before each get: remaining messages are dropped
            proxy.busy = False
            with self.enter(inst):
                proxy._close()
            return
        if not proxy.queue:
            proxy.busy = False
            return
        dst = self.inst_by_identifier(proxy.target_identifier)
        if dst is not None and dst.alive and dst.stalled_until > self.now_us:
            # the target main thread is frozen: the request is served when it wakes up
            self.at_us(dst.stalled_until, self._proxy_exec, proxy)
            return
        block = self.blocked_until(inst.nick, dst.nick if dst is not None else None)
        if block is not None:
            self.at_us(block, self._proxy_exec, proxy)
            return
        event = proxy.queue.popleft()
        etype, (source, body) = event
        if etype == InternalEventHeaders.REQUEST and body[0] == RequestHeaders.CHECK_INSTANCE.value:
            helper = Helper(self, inst, proxy, lambda: proxy.process_event(event))
            self.helpers.append(helper)
            self.stats['handshake'] += 1
            helper.on_done = lambda: self._proxy_done(proxy)
            self._helper_step(helper)
            return
        if etype == InternalEventHeaders.PUBLICATION:
            for obs in self.observers:
                f = getattr(obs, 'on_proxy_publish', None)
                if f:
                    f(self, inst, proxy, body)
        try:
            with self.enter(inst):
                proxy.process_event(event)
        except Exception:  # noqa
            self._proxy_died(proxy, traceback.format_exc())
            return
        dst_nick = self.by_identifier.get(proxy.target_identifier) or inst.nick
        self.after(self.latency(dst_nick, inst.nick), self._proxy_done, proxy)

    def _helper_step(self, helper):
        if helper.done:
            return
        helper.resume()
        if helper.done:
            if helper.exc is not None and not helper.killed:
                self._proxy_died(helper.proxy, getattr(helper, 'exc_tb', repr(helper.exc)))
            else:
                helper.on_done()

    def _proxy_died(self, proxy, tb):
        proxy.dead = True
        proxy.busy = False
        self.stats['proxy_died'] += 1
        self.note_internal_error(proxy.inst, 'proxy_thread:' + str(proxy.target_identifier), tb)

    def _proxy_done(self, proxy):
        proxy.busy = False
        inst = proxy.inst
        if not inst.alive:
            return
        if proxy.stopped:
            with self.enter(inst):
                proxy._close()
            return
        self.proxy_kick(proxy)

    # --- RPC transport --------------------------------------------------------------------------
    def rpc_from_proxy(self, src, proxy, method, args):
        dst_nick = self.by_identifier.get(proxy.target_identifier)
        helper = self.cur_helper
        if helper is not None:
            # multi-RPC job: model request and response latencies by parking the thread
            d1 = self.latency(src.nick, dst_nick or src.nick)
            self.after(d1, self._helper_step, helper)
            helper.park()
            result, exc = None, None
            try:
                result = self._rpc_exec(src, dst_nick, method, args, 'proxy')
            except Exception as e:  # noqa (a _Killed passes through)
                exc = e
            d2 = self.latency(dst_nick or src.nick, src.nick)
            self.after(d2, self._helper_step, helper)
            helper.park()
            if exc is not None:
                raise exc
            return result
        return self._rpc_exec(src, dst_nick, method, args, 'proxy')

    def client_call(self, dst_nick, method, args):
        """ A user talking XML-RPC to one instance. Returns the operation record. """
        rec = {'t_us': self.now_us, 'seq': self.cur_event_seq if hasattr(self, 'cur_event_seq') else 0,
               'target': dst_nick, 'method': method, 'args': list(args)}
        self.oplog.append(rec)
        try:
            rec['result'] = self._rpc_exec(None, dst_nick, method, args, 'client', oprec=rec)
        except xc.Fault as f:
            rec['fault'] = (f.faultCode, f.faultString)
        except xc.ProtocolError:
            rec['http500'] = True
        except OSError as exc:
            rec['oserror'] = str(exc)
        return rec

    def _rpc_exec(self, src, dst_nick, method, args, via, oprec=None):
        from supervisor.xmlrpc import RPCError, Faults, xmlrpc_marshal
        src_nick = src.nick if src is not None else None
        # client side marshalling (allow_none is off in Supervisor's client): may raise TypeError/OverflowError
        data = xc.dumps(tuple(args), method)
        dst = self.instances.get(dst_nick) if dst_nick else None
        rec = {'t_us': self.now_us, 'src': src_nick, 'dst': dst_nick, 'method': method, 'via': via,
               'src_inc': src.incarnation if src is not None else None}
        self.stats['rpc'] += 1
        puppet = self.puppets.get(dst_nick) if self.puppets else None
        if puppet is not None:
            # a puppet peer: its side of the RPC is answered from a script (no Supvisors behind it)
            params, _m = xc.loads(data)
            if (src_nick, dst_nick) in self.cuts:
                rec['outcome'] = 'refused'
                self._wire(rec, params)
                raise ConnectionRefusedError(errno.ECONNREFUSED, 'Connection refused')
            try:
                value = puppet.answer(src, method, params)
            except OSError:
                rec['outcome'] = 'refused'
                self._wire(rec, params)
                raise
            rec['outcome'] = 'ok'
            rec['puppet'] = True
            self._wire(rec, params)
            return xc.loads(xmlrpc_marshal(value))[0][0]
        if dst is None or not dst.serving or (src_nick and src_nick != dst_nick
                                               and not self.connectable(src_nick, dst_nick)):
            rec['outcome'] = 'refused'
            self.stats['rpc_refused'] += 1
            self._wire(rec, args)
            raise ConnectionRefusedError(errno.ECONNREFUSED, 'Connection refused')
        verdict = self.rpc_filter(self, rec, args) if self.rpc_filter else None
        if verdict == 'drop':
            # only for PROCESS publications in the C10 profile: silently lost, caller believes it was sent
            rec['outcome'] = 'dropped'
            self._wire(rec, args)
            return True
        if verdict == 'refuse':
            rec['outcome'] = 'refused'
            self._wire(rec, args)
            raise ConnectionResetError(errno.ECONNRESET, 'Connection reset by peer')
        params, mname = xc.loads(data)
        rec['dst_inc'] = dst.incarnation
        body = None
        http500 = False
        with self.enter(dst):
            for obs in self.observers:
                f = getattr(obs, 'before_rpc', None)
                if f:
                    f(self, dst, rec, params)
            try:
                value = self._traverse(dst, mname, params, rec)
                if isinstance(value, types.FunctionType):
                    if oprec is not None:
                        oprec['deferred'] = True
                        dst.deferred.append((oprec, value))
                        value = 'DEFERRED'
                    else:
                        # internal calls always use wait=False
                        raise HarnessError('deferred result on an internal RPC %s' % method)
                body = xmlrpc_marshal(value)
                rec['outcome'] = 'ok'
            except RPCError as err:
                body = xmlrpc_marshal(xc.Fault(err.code, err.text))
                rec['outcome'] = 'fault'
                rec['fault'] = err.code
            except HarnessError:
                raise
            except Exception:  # noqa
                tb = traceback.format_exc()
                rec['outcome'] = 'http500'
                http500 = True
                self.note_internal_error(dst, 'xmlrpc:' + method, tb)
            self._wire(rec, params)
            # the RPC handler and the rest of the supervisord loop iteration (transitions, reap, tick) are distinct
            # handlers: observers see the state between them
            self._after_event(dst, 'rpc')
            if dst.alive:
                dst.loop_tail()
        self._after_event(dst, 'tail')
        if http500:
            raise xc.ProtocolError('sim', 500, 'Internal Server Error', {})
        if verdict == 'resp_lost':
            rec['resp_lost'] = True
            raise ConnectionResetError(errno.ECONNRESET, 'Connection reset by peer')
        result = xc.loads(body)[0][0]
        return result

    def _traverse(self, dst, method, params, rec):
        """ supervisor.xmlrpc.traverse, telling a signature mismatch from an internal TypeError. """
        from supervisor.xmlrpc import RPCError, Faults
        parts = method.split('.')
        if len(parts) != 2:
            raise RPCError(Faults.UNKNOWN_METHOD)
        ns, meth = parts
        if meth.startswith('_'):
            raise RPCError(Faults.UNKNOWN_METHOD)
        rpcinterface = getattr(dst.rpc, ns, None)
        if rpcinterface is None:
            raise RPCError(Faults.UNKNOWN_METHOD)
        func = getattr(rpcinterface, meth, None)
        if not isinstance(func, types.MethodType):
            raise RPCError(Faults.UNKNOWN_METHOD)
        try:
            return func(*params)
        except TypeError:
            tb = sys.exc_info()[2]
            depth = 0
            while tb is not None:
                depth += 1
                tb = tb.tb_next
            if depth > 1:
                # raised inside the method: Supervisor would mask it as INCORRECT_PARAMETERS
                rec['masked_typeerror'] = True
                self.note_internal_error(dst, 'xmlrpc-masked-TypeError:' + method, traceback.format_exc())
            raise RPCError(Faults.INCORRECT_PARAMETERS)

    def _wire(self, rec, params):
        rec['seq'] = len(self.wire)
        m = rec['method']
        if m == 'supervisor.sendRemoteCommEvent':
            rec['comm_type'] = params[0]
            try:
                origin, (header, body) = json.loads(params[1])
                rec['origin'] = origin[0] if origin else None
                rec['header'] = header
                rec['body'] = body
            except Exception:  # noqa
                rec['raw'] = params[1]
        else:
            rec['args'] = list(params)
            # request storm detector: the same request repeated without bound (a livelock or a crash loop of the
            # real code) would make the run explode: the run is cut short and flagged
            if m == 'supvisors.start_args' and self.aborted is None:
                key = (rec['src'], rec['dst'], rec['args'][0] if rec['args'] else None)
                times = self.storm_times.setdefault(key, collections.deque())
                times.append(self.now_us)
                while times and self.now_us - times[0] > 60 * US:
                    times.popleft()
                if len(times) > 150:
                    self.aborted = 'storm'
                    self.storm = {'src': rec['src'], 'dst': rec['dst'], 'method': m, 'args': rec['args'],
                                  'outcome': rec.get('outcome'), 'fault': rec.get('fault'), 't_us': self.now_us,
                                  'rate_per_s': round(len(times) / max(1e-6, (self.now_us - times[0]) / US), 1)}
                    self.stats['storm'] += 1
        self.wire.append(rec)
        self.note('rpc', rec['src'], rec['dst'], m, rec.get('header'), rec['outcome'])
        for obs in self.observers:
            f = getattr(obs, 'on_wire', None)
            if f:
                f(self, rec)

    def note_internal_error(self, inst, where, tb):
        self.internal_errors.append({'t_us': self.now_us, 'inst': inst.nick, 'where': where, 'tb': tb})

    # --- end ------------------------------------------------------------------------------------
    def close(self):
        global _CUR_SIM
        from supervisor import events
        for helper in self.helpers:
            if not helper.done:
                helper.killed = True
                helper.resume()
        for helper in self.helpers:
            helper.thread.join(1.0)
        events.callbacks = _NO_CALLBACKS
        if self._own_scratch:
            shutil.rmtree(self.scratch, ignore_errors=True)
        if _CUR_SIM is self:
            _CUR_SIM = None


_NO_CALLBACKS = []
