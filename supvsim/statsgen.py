"""Seeded statistics sample streams of a puppet peer (C20): host and process samples as the collector would send them,
with the events real hosts produce: interfaces / disks / partitions appearing and vanishing, counters wrapping, processes
restarting under new PIDs or stopping, host reboot (clock and counters restart), duplicated and out-of-period samples."""
from . import gen


def gen_stream(rng, puppet_nick, namespecs, t0, t1, n_samples):
    """ Returns plan items (p_raw publications) for one puppet. """
    items = []
    ncores = gen.pick(rng, [1, 1, 2, 4])
    ncpu = 1 if ncores == 1 else ncores + 1       # average first when several cores
    now = rng.uniform(100.0, 50000.0)             # monotonic clock of the puppet's host
    cpu = [[rng.uniform(0, 1e5), rng.uniform(0, 1e5)] for _ in range(ncpu)]
    nics = {'lo': [rng.randrange(10 ** 9), rng.randrange(10 ** 9)], 'eth0': [rng.randrange(10 ** 9), rng.randrange(10 ** 9)]}
    disks = {'sda': [rng.randrange(10 ** 9), rng.randrange(10 ** 9)]}
    parts = {'/': rng.uniform(0, 100)}
    procs = {}                                      # namespec -> [pid, work, mem]
    next_pid = [1000]
    t = t0
    step_pool = gen.pick(rng, [[5.0], [5.0, 5.0, 1.0, 12.0], [0.5, 1.0, 2.5, 5.0], [1.0], [7.0, 30.0]])
    for _k in range(n_samples):
        step = gen.pick(rng, step_pool)
        r = rng.random()
        if r < 0.04:
            step = 0.0                              # same time-stamp twice
        t += max(step, 0.01)
        if t > t1:
            break
        now += step
        if rng.random() < 0.02:
            # host reboot: the monotonic clock and every counter restart, every process gets a new pid or is gone
            now = rng.uniform(1.0, 30.0)
            # (the CPU jiffies are kept non-decreasing: the [0,100] claim is made for non-decreasing counters only)
            nics = {k: [rng.randrange(1000), rng.randrange(1000)] for k in nics}
            disks = {k: [rng.randrange(1000), rng.randrange(1000)] for k in disks}
            for ns in list(procs):
                if rng.random() < 0.5:
                    del procs[ns]
                else:
                    next_pid[0] += 1
                    procs[ns] = [next_pid[0], 0.0, rng.uniform(0, 50)]
        # host counters
        for c in cpu:
            busy = rng.random()
            total = step * 100.0 * gen.pick(rng, [1.0, 1.0, 0.0])
            c[0] += total * busy
            c[1] += total * (1.0 - busy)
        for table, names in ((nics, ['lo', 'eth0', 'eth1', 'wlan0', 'docker0']), (disks, ['sda', 'sdb', 'nvme0n1', 'loop0'])):
            if rng.random() < 0.06 and len(table) > 0:
                del table[gen.pick(rng, sorted(table))]
            if rng.random() < 0.08:
                table.setdefault(gen.pick(rng, names), [rng.randrange(10 ** 6), rng.randrange(10 ** 6)])
            for k in table:
                if rng.random() < 0.04:
                    # counter wrap: both counters, or one of them while the other keeps growing
                    which = gen.pick(rng, ['both', 'in', 'out'])
                    if which in ('both', 'in'):
                        table[k][0] = rng.randrange(1000)
                    else:
                        table[k][0] += rng.randrange(1, 10 ** 7)
                    if which in ('both', 'out'):
                        table[k][1] = rng.randrange(1000)
                    else:
                        table[k][1] += rng.randrange(1, 10 ** 7)
                else:
                    table[k][0] += rng.randrange(0, 10 ** 7)
                    table[k][1] += rng.randrange(0, 10 ** 7)
        if rng.random() < 0.05 and parts:
            del parts[gen.pick(rng, sorted(parts))]
        if rng.random() < 0.08:
            parts[gen.pick(rng, ['/', '/home', '/var', '/mnt/usb', '/boot'])] = rng.uniform(0, 100)
        for k in parts:
            parts[k] = min(100.0, max(0.0, parts[k] + rng.uniform(-1, 1)))
        if rng.random() < 0.7:
            body = {'now': now, 'cpu': [list(c) for c in cpu], 'mem': rng.uniform(0.0, 100.0),
                    'net_io': {k: list(v) for k, v in nics.items()}, 'disk_usage': dict(parts),
                    'disk_io': {k: list(v) for k, v in disks.items()}}
            items.append({'t': round(t, 4), 'kind': 'p_raw', 'p': puppet_nick, 'comm_type': 'SupvisorsPublication',
                          'header': 5, 'body': body, 'even_dead': True})
            if rng.random() < 0.05:
                items.append(dict(items[-1], t=round(t + 0.0005, 4)))      # duplicated delivery
        # process samples
        for ns in namespecs + ['supervisord']:
            r = rng.random()
            if ns not in procs:
                if r < 0.15:
                    next_pid[0] += 1
                    procs[ns] = [next_pid[0], 0.0, rng.uniform(0, 50)]
                else:
                    if r > 0.97:
                        # a stopped process nobody ever saw running
                        items.append({'t': round(t, 4), 'kind': 'p_raw', 'p': puppet_nick, 'even_dead': True,
                                      'comm_type': 'SupvisorsPublication', 'header': 6,
                                      'body': {'namespec': ns, 'pid': 0, 'now': now}})
                    continue
            p = procs[ns]
            if r < 0.05:
                # stopped
                del procs[ns]
                items.append({'t': round(t, 4), 'kind': 'p_raw', 'p': puppet_nick, 'comm_type': 'SupvisorsPublication',
                              'header': 6, 'body': {'namespec': ns, 'pid': 0, 'now': now}, 'even_dead': True})
                continue
            if r < 0.09:
                next_pid[0] += 1                    # restarted under a new pid between two samples
                p[0], p[1] = next_pid[0], 0.0
            p[1] += step * ncores * rng.random()
            p[2] = min(100.0, max(0.0, p[2] + rng.uniform(-2, 2)))
            if rng.random() < 0.8:
                body = {'namespec': ns, 'pid': p[0], 'now': now, 'proc_work': p[1], 'proc_memory': p[2]}
                if ns == 'supervisord':
                    body['nb_cores'] = ncores
                items.append({'t': round(t, 4), 'kind': 'p_raw', 'p': puppet_nick, 'comm_type': 'SupvisorsPublication',
                              'header': 6, 'body': body, 'even_dead': True})
    return items, ncores
