"""Generation of user operations (XML-RPC calls addressed to a live instance)."""
from . import gen

VALID_STRATS = gen.STARTING_STRATEGIES
BAD_STRATS = ['BOGUS', 'less_loaded ', 17, -1, '']


def _strategy(rng, p_bad=0.1):
    if rng.random() < p_bad:
        return gen.pick(rng, BAD_STRATS)
    s = gen.pick(rng, VALID_STRATS)
    if rng.random() < 0.3:
        return VALID_STRATS.index(s)
    return s


def _app(rng, config, p_bad=0.1):
    if rng.random() < p_bad:
        return gen.pick(rng, ['nope', 'app', 'app1:', '*', ''])
    return gen.pick(rng, [g['name'] for g in config['groups']])


def _namespec(rng, config, p_bad=0.1):
    if rng.random() < p_bad:
        return gen.pick(rng, ['nope:nope', 'app1:nope', 'nope', 'app1', ':'])
    names = gen.namespecs_of(config)
    ns = gen.pick(rng, names)
    if rng.random() < 0.08:
        return ns.split(':')[0] + ':*'
    return ns


def _program(rng, config, p_bad=0.1):
    if rng.random() < p_bad:
        return gen.pick(rng, ['nope', ''])
    return gen.pick(rng, [p['name'] for g in config['groups'] for p in g['programs']])


def _identifier(rng, config, p_bad=0.1):
    if rng.random() < p_bad:
        return gen.pick(rng, ['nope', 'host9:60001', ''])
    spec = gen.pick(rng, config['instances'])
    if rng.random() < 0.5:
        return spec['nick']
    return gen.identifier_of(config, spec['nick'])


OPS = {
    # name: (weight class, args builder)
    'start_application': lambda r, c: [_strategy(r), _app(r, c), r.random() < 0.2],
    'test_start_application': lambda r, c: [_strategy(r), _app(r, c)],
    'stop_application': lambda r, c: [_app(r, c), r.random() < 0.2],
    'restart_application': lambda r, c: [_strategy(r), _app(r, c), r.random() < 0.2],
    'start_process': lambda r, c: [_strategy(r), _namespec(r, c), gen.pick(r, ['', '', '-x 1']), r.random() < 0.2],
    'test_start_process': lambda r, c: [_strategy(r), _namespec(r, c)],
    'start_any_process': lambda r, c: [_strategy(r), gen.pick(r, ['p1', 'app', ':p2', 'zzz', 'p.a', '(']), '',
                                        r.random() < 0.2],
    'stop_process': lambda r, c: [_namespec(r, c), r.random() < 0.2],
    'restart_process': lambda r, c: [_strategy(r), _namespec(r, c), '', r.random() < 0.2],
    'start_args': lambda r, c: [_namespec(r, c), gen.pick(r, ['', '-y']), False],
    'update_numprocs': lambda r, c: [_program(r, c), gen.pick(r, [1, 2, 3, 0, -1, 'x']), r.random() < 0.2,
                                     r.random() < 0.3],
    'enable': lambda r, c: [_program(r, c), r.random() < 0.2],
    'disable': lambda r, c: [_program(r, c), r.random() < 0.2],
    'conciliate': lambda r, c: [gen.pick(r, gen.CONCILIATION_STRATEGIES + ['BOGUS', 2, 9])],
    'restart_sequence': lambda r, c: [r.random() < 0.2],
    'restart': lambda r, c: [],
    'shutdown': lambda r, c: [],
    'end_sync': lambda r, c: [gen.pick(r, ['', '', _identifier(r, c)])],
    # status
    'get_api_version': lambda r, c: [],
    'get_supvisors_state': lambda r, c: [],
    'get_all_instances_state_modes': lambda r, c: [],
    'get_instance_state_modes': lambda r, c: [_identifier(r, c)],
    'get_master_identifier': lambda r, c: [],
    'get_strategies': lambda r, c: [],
    'get_statistics_status': lambda r, c: [],
    'get_network_info': lambda r, c: [_identifier(r, c)],
    'get_all_instances_info': lambda r, c: [],
    'get_instance_info': lambda r, c: [_identifier(r, c)],
    'get_all_applications_info': lambda r, c: [],
    'get_application_info': lambda r, c: [_app(r, c)],
    'get_application_rules': lambda r, c: [_app(r, c)],
    'get_all_process_info': lambda r, c: [],
    'get_process_info': lambda r, c: [_namespec(r, c)],
    'get_all_local_process_info': lambda r, c: [],
    'get_local_process_info': lambda r, c: [_namespec(r, c)],
    'get_all_inner_process_info': lambda r, c: [_identifier(r, c)],
    'get_inner_process_info': lambda r, c: [_identifier(r, c), _namespec(r, c)],
    'get_process_rules': lambda r, c: [_namespec(r, c)],
    'get_conflicts': lambda r, c: [],
    'change_log_level': lambda r, c: [gen.pick(r, ['warn', 'info', 'debug', 'bogus', 30, 3])],
    'enable_host_statistics': lambda r, c: [r.random() < 0.5],
    'enable_process_statistics': lambda r, c: [r.random() < 0.5],
    'update_collecting_period': lambda r, c: [gen.pick(r, [5.0, 1.0, 0.5, 100.0])],
}

STATUS_OPS = [k for k in OPS if k.startswith('get_')]
MIXES = {
    'none': {},
    'fsm': {'restart': 1, 'shutdown': 1, 'end_sync': 2, 'restart_sequence': 1},
    'start': {'start_application': 3, 'restart_application': 1, 'restart_sequence': 1, 'stop_application': 1},
    'startstop': {'start_application': 3, 'restart_application': 1, 'stop_application': 2, 'start_process': 2,
                  'stop_process': 2, 'restart_process': 1},
    'all': dict({k: 1 for k in OPS}, restart=0.3, shutdown=0.3, change_log_level=0.2),
    'direct': {'supervisor.startProcess': 1},
    'gated': {'get_all_applications_info': 0.5, 'get_application_info': 1, 'get_application_rules': 1,
              'get_all_process_info': 0.5, 'get_process_info': 1, 'get_process_rules': 1, 'get_conflicts': 1,
              'start_application': 2, 'restart_application': 2, 'test_start_application': 1, 'start_process': 2,
              'restart_process': 1, 'test_start_process': 1, 'start_any_process': 1, 'update_numprocs': 1, 'enable': 1,
              'disable': 1, 'restart_sequence': 1, 'stop_application': 2, 'stop_process': 2, 'conciliate': 2,
              'end_sync': 2, 'restart': 0.3, 'shutdown': 0.3, 'supervisor.startProcess': 2},
}


def gen_ops(rng, prof, config):
    mix_name = prof.get('ops', 'none')
    mix = MIXES[mix_name] if isinstance(mix_name, str) else mix_name
    if not mix:
        return []
    nicks = [s['nick'] for s in config['instances']]
    t0, t1 = prof.get('ops_window', prof.get('fault_window', (20.0, 200.0)))
    n = rng.randint(prof.get('min_ops', 0), prof.get('max_ops', 6))
    plan = []
    for _ in range(n):
        name = gen._weighted(rng, mix)
        if name.startswith('supervisor.'):
            method = name
            args = [gen.pick(rng, gen.namespecs_of(config)), False]
            if rng.random() < 0.15:
                args[0] = args[0].split(':')[0] + ':*'
        else:
            method = 'supvisors.' + name
            args = OPS[name](rng, config)
        item = {'kind': 'rpc', 'inst': gen.pick(rng, nicks + ['$master']), 'method': method, 'args': args}
        if rng.random() < prof.get('p_trigger_op', 0.2):
            item['trigger'] = {'state': gen.pick(rng, gen.TRIGGER_STATES), 'inst': '*',
                               'delay': round(rng.uniform(0.0, 4.0), 3), 'before': t1 - 5.0}
            if rng.random() < 0.5:
                item['inst'] = '$trigger'
        else:
            item['t'] = round(rng.uniform(t0, t1), 3)
        plan.append(item)
    return plan
