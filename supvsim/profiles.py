"""Per-property profiles: distributions for configuration, operations, faults, run length; oracle sets."""
import random

from . import gen, kernel
from .scenario import Run

BASE = {
    'fault_window': (20.0, 200.0),
    'quiesce': 150.0,
}

SIMPLE_CHILDREN = {'ok': 0.86, 'exit_late': 0.06, 'backoff_then_ok': 0.04, 'ignore_stop': 0.04}

# children that stop failing after a bounded number of spawns (C08: "once disturbances stop")
EVENTUALLY_OK_CHILDREN = {'ok': 0.84, 'exit_late_then_ok': 0.08, 'backoff_then_ok': 0.04, 'ignore_stop': 0.04}

PROFILES = {
    'C01': dict(BASE, p_join_only=0.25, max_faults=5, min_faults=1, ops='none', child_kinds=SIMPLE_CHILDREN,
                fault_weights={'crash': 2, 'restart': 4, 'partition': 3},
                supvisors_failure_strategies=['CONTINUE', 'CONTINUE', 'RESYNC'], n_groups=[1, 2], n_programs=[1, 2, 3]),
    'C08': dict(BASE, max_faults=5, min_faults=1, ops='direct', max_ops=2, child_kinds=EVENTUALLY_OK_CHILDREN,
                fault_weights={'crash': 2, 'restart': 4, 'partition': 2, 'child_exit': 2}, p_heal=1.0, p_final_heal=1.0,
                quiesce=240.0, supvisors_failure_strategies=['CONTINUE', 'CONTINUE', 'RESYNC'],
                p_trigger=0.5, trigger_states=['ELECTION', 'DISTRIBUTION', 'CONCILIATION', 'OPERATION'],
                p_wait_exit=0.0, startsecs=[0, 1, 1, 2, 4], n_groups=[1, 2], n_programs=[1, 2, 3]),
    'C07': dict(BASE, max_faults=6, min_faults=1, ops='none', child_kinds=SIMPLE_CHILDREN, quiesce=60.0,
                fault_weights={'crash': 2, 'restart': 4, 'partition': 4, 'stall': 1, 'slow': 1, 'child_exit': 0.5},
                p_auto_fence=0.5, inactivity_ticks=[2, 2, 3, 4, 5], p_heal=0.7, n_groups=[1, 2], n_programs=[1, 2, 3],
                p_autostart=0.3),
    'C12': dict(BASE, p_empty_instance=0.12, max_faults=5, min_faults=0, ops={'supervisor.startProcess': 3, 'supervisor.stopProcess': 2,
                                                         'start_application': 1, 'stop_application': 1,
                                                         'start_process': 1, 'stop_process': 1}, max_ops=8,
                fault_weights={'crash': 1, 'restart': 3, 'partition': 2, 'child_exit': 4, 'slow': 1},
                child_kinds={'ok': 0.6, 'exit_late': 0.25, 'exit_early': 0.05, 'backoff_then_ok': 0.05,
                             'ignore_stop': 0.05},
                autorestart=['false', 'false', 'unexpected', 'true', 'true'], p_autostart=0.4, p_late_boot=0.4,
                quiesce=60.0, latencies=[{'lo': 0.0002, 'hi': 0.02}, {'lo': 0.001, 'hi': 0.3}, {'lo': 0.01, 'hi': 1.5},
                                         {'lo': 0.05, 'hi': 3.0}]),
    'C03': dict(BASE, no_restart_storm=True, p_crash_near_op=0.4, p_stop_focus=0.12, max_faults=3, min_faults=0, ops={'start_application': 3, 'restart_application': 2,
                                                         'restart_sequence': 1}, max_ops=5,
                fault_weights={'crash': 1, 'restart': 2, 'child_exit': 2},
                conciliation_strategies=['SENICIDE', 'INFANTICIDE', 'USER', 'STOP'],
                running_failure=['CONTINUE', 'STOP_APPLICATION', 'RESTART_APPLICATION'],
                child_kinds={'ok': 0.55, 'exit_late': 0.1, 'exit_early': 0.12, 'backoff_then_ok': 0.1, 'exec_fail': 0.05,
                             'ignore_stop': 0.03, 'slow_stop': 0.05},
                p_wait_exit=0.3, p_sequenced=0.95, max_seq=3, n_programs=[2, 3, 4, 4], n_groups=[1, 2, 3],
                p_app_sequenced=0.9, max_app_seq=3, p_autostart=0.0, supvisors_failure_strategies=['CONTINUE'],
                autorestart=['false']),
    'C04': dict(BASE, no_restart_storm=True, p_disable_in_handshake=0.6, p_heal_disable_burst=0.15, max_faults=3, min_faults=0, ops={'start_application': 3, 'restart_application': 1,
                                                         'start_process': 2, 'restart_process': 1, 'stop_application': 1,
                                                         'start_any_process': 1, 'disable': 0.5, 'enable': 0.5},
                max_ops=8, fault_weights={'crash': 1, 'restart': 3, 'child_exit': 1, 'partition': 2}, p_heal=1.0,
                p_final_heal=1.0, loads=[0, 10, 20, 30, 40, 50, 60, 70], p_shared_node=0.6, p_absent=0.3, p_disabled=0.2,
                n_inst=[2, 3, 4, 5], n_programs=[2, 3, 4], n_groups=[2, 3, 3], max_app_seq=1, p_app_sequenced=0.9,
                child_kinds=SIMPLE_CHILDREN, p_numprocs=0.25, supvisors_failure_strategies=['CONTINUE']),
    'C14': dict(BASE, no_restart_storm=True, max_faults=2, min_faults=0, ops={'start_application': 4, 'restart_application': 1,
                                                         'stop_application': 2}, max_ops=8,
                fault_weights={'crash': 1, 'restart': 2, 'child_exit': 1},
                loads=[0, 5, 10, 15, 20, 25, 30, 40], p_shared_node=0.7, p_absent=0.2, p_disabled=0.1,
                n_inst=[3, 4, 5, 5], n_programs=[2, 3, 4, 5, 6], n_groups=[2, 3, 4], max_app_seq=2, max_seq=2,
                distributions=['ALL_INSTANCES', 'ALL_INSTANCES', 'SINGLE_INSTANCE', 'SINGLE_NODE'],
                child_kinds=SIMPLE_CHILDREN, p_numprocs=0.35, supvisors_failure_strategies=['CONTINUE'],
                p_ident_rule=0.7),
    'C05': dict(BASE, max_faults=3, min_faults=0, ops={'supervisor.startProcess': 5, 'supervisor.stopProcess': 1},
                min_ops=2, max_ops=8, fault_weights={'crash': 1, 'restart': 1, 'partition': 3, 'child_exit': 1},
                p_auto_fence=0.1, child_kinds={'ok': 0.85, 'ignore_stop': 0.05, 'slow_stop': 0.1}, p_managed=0.8,
                running_failure=['CONTINUE', 'RESTART_PROCESS', 'STOP_APPLICATION', 'RESTART_APPLICATION'],
                n_inst=[2, 3, 3, 4], n_groups=[1, 2, 3], n_programs=[1, 2, 3], p_autostart=0.15,
                supvisors_failure_strategies=['CONTINUE'], p_absent=0.05, p_disabled=0.0, p_trigger_op=0.3,
                p_heal=0.9, p_final_heal=1.0),
    'C06': dict(BASE, max_faults=1, min_faults=1, ops='none', fault_weights={'crash': 1}, fault_window=(25.0, 120.0),
                ops_near_fault=[0, 0, 1, 1, 2], startsecs=[0, 1, 2, 4, 8, 12], p_stop_before_crash=0.35,
                p_multi_app_failure=0.25,
                stopwaitsecs=[2, 4, 8, 12],
                child_kinds={'ok': 0.77, 'exec_fail': 0.03, 'slow_stop': 0.12, 'ignore_stop': 0.08}, autorestart=['false'],
                p_autostart=0.0, p_sequenced=0.9,
                p_app_sequenced=1.0,
                running_failure=['CONTINUE', 'RESTART_PROCESS', 'STOP_APPLICATION', 'RESTART_APPLICATION'],
                n_inst=[3, 3, 4, 5], n_groups=[1, 2, 3], n_programs=[2, 3, 4], p_absent=0.05, p_disabled=0.0,
                supvisors_failure_strategies=['CONTINUE'], need_timeout=True, p_late_boot=0.1, late_boot_max=15.0,
                p_trigger=0.4, trigger_states=['DISTRIBUTION', 'OPERATION'], p_wait_exit=0.0, quiesce=240.0,
                conciliation_strategies=['USER'], loads=[0, 5, 10, 20], p_numprocs=0.1,
                victim_pool=['$nonmaster', '$nonmaster', '$nonmaster', '$nonmaster', '$master']),
    'C09': dict(BASE, no_restart_storm=True, max_faults=2, min_faults=0,
                ops={'stop_application': 4, 'restart_application': 2, 'start_application': 2, 'restart': 0.7,
                     'shutdown': 0.7}, min_ops=2, max_ops=7,
                fault_weights={'crash': 2, 'child_exit': 1}, victim_pool=['$nonmaster'], p_trigger=0.6,
                trigger_states=['RESTARTING', 'SHUTTING_DOWN', 'OPERATION'],
                child_kinds={'ok': 0.6, 'slow_stop': 0.25, 'ignore_stop': 0.15}, stopwaitsecs=[1, 2, 4, 8, 12],
                conciliation_strategies=['USER'], running_failure=['CONTINUE', 'STOP_APPLICATION', 'RESTART_APPLICATION'],
                p_sequenced=0.9, max_seq=3, p_app_sequenced=0.9, max_app_seq=3, n_programs=[2, 3, 4], n_groups=[1, 2, 3],
                p_managed=0.8, supvisors_failure_strategies=['CONTINUE'], p_autostart=0.1, autorestart=['false'],
                need_timeout=True, p_absent=0.05, p_disabled=0.0),
    'C10': dict(BASE, mix=[('P10', 0.2)], no_restart_storm=True, max_faults=4, min_faults=1,
                ops={'start_application': 3, 'stop_application': 3, 'restart_application': 2, 'start_process': 2,
                     'stop_process': 2, 'restart_process': 1}, min_ops=2, max_ops=8,
                fault_weights={'crash': 2, 'restart': 2, 'child_exit': 1, 'stall': 0.5}, p_trigger=0.5,
                trigger_states=['DISTRIBUTION', 'OPERATION', 'CONCILIATION'],
                child_kinds={'ok': 0.45, 'exit_early': 0.15, 'backoff_then_ok': 0.1, 'exec_fail': 0.05,
                             'ignore_stop': 0.15, 'slow_stop': 0.1},
                startsecs=[0, 1, 2, 4, 8, 12], stopwaitsecs=[1, 2, 4, 8, 12], startretries=[0, 1, 2, 3],
                p_wait_exit=0.0, event_drop=True, supvisors_failure_strategies=['CONTINUE'], need_timeout=True,
                quiesce=120.0),
    'C11': dict(builder='puppet', mix=[('C12', 0.12), ('C05', 0.08)], p_managed=0.8, p_numprocs=0.2, p_autostart=0.1, n_groups=[1, 2, 2], n_programs=[1, 2, 3],
                child_kinds=SIMPLE_CHILDREN, supvisors_failure_strategies=['CONTINUE'], p_auto_fence=0.3,
                inactivity_ticks=[2, 2, 3], hostile=0.0, window=(18.0, 160.0), quiesce=45.0, n_events=(10, 120)),
    'C13': dict(builder='puppet', mix=[('C07', 0.15), ('C01', 0.05)], p_managed=0.8, p_numprocs=0.1, p_autostart=0.2, n_groups=[1, 2], n_programs=[1, 2, 3],
                child_kinds=SIMPLE_CHILDREN, supvisors_failure_strategies=['CONTINUE'], p_auto_fence=0.7,
                inactivity_ticks=[2, 2, 3], hostile=0.2, window=(18.0, 160.0), quiesce=30.0, n_events=(20, 120),
                p_sees_isolated=0.3, p_strategy_mismatch=0.25, n_real=[1, 1, 2],
                weights={'event': 40, 'forced': 5, 'removed': 5, 'added': 5, 'down': 3, 'mute': 4, 'stealth': 2,
                         'disability': 5, 'op': 3, 'tick': 8, 'state': 8, 'replay': 12, 'slowlink': 3, 'discovery': 4}),
    'C15': dict(builder='puppet', mix=[('C12', 0.1), ('C03', 0.1)], p_real_absent=0.5, p_managed=0.9, p_numprocs=0.25, p_autostart=0.2, n_groups=[1, 2, 2], n_programs=[1, 2, 3, 4],
                child_kinds={'ok': 0.6, 'exit_late': 0.2, 'exit_early': 0.1, 'backoff_then_ok': 0.05, 'exec_fail': 0.05},
                supvisors_failure_strategies=['CONTINUE'], p_auto_fence=0.3, formulas=0.7,
                inactivity_ticks=[2, 2, 3], hostile=0.0, window=(18.0, 140.0), quiesce=40.0, n_events=(10, 100)),
    'C17': dict(BASE, max_faults=3, min_faults=0, ops='gated', ops_pairs=[0, 1, 1, 2], p_ending_op_near_loss=0.5,
                victim_pool=['$master', '$master', '$nonmaster', '$trigger'], min_ops=6, max_ops=16, p_trigger_op=0.55, p_managed=0.7,
                p_late_boot=0.4, p_absent=0.2, fault_weights={'crash': 1, 'restart': 3, 'partition': 2, 'child_exit': 1},
                conciliation_strategies=['USER', 'USER', 'SENICIDE', 'STOP'], ops_window=(1.0, 200.0),
                synchro_pool=['USER', 'USER', 'TIMEOUT', 'STRICT', 'LIST', 'CORE'], child_kinds=SIMPLE_CHILDREN,
                supvisors_failure_strategies=['CONTINUE', 'CONTINUE', 'RESYNC'], n_groups=[2, 3], quiesce=60.0),
    'C19': dict(BASE, builder='twin', max_faults=0, ops='none', loads=[0, 5, 10, 15, 20, 25, 30, 40, 50, 60],
                p_shared_node=0.6, p_absent=0.25, p_disabled=0.1, n_inst=[2, 3, 4, 5], n_programs=[2, 3, 4],
                n_groups=[2, 3, 4], max_app_seq=2, max_seq=3, p_sequenced=0.85,
                distributions=['ALL_INSTANCES', 'ALL_INSTANCES', 'SINGLE_INSTANCE', 'SINGLE_NODE'],
                child_kinds={'ok': 1.0}, p_numprocs=0.25, supvisors_failure_strategies=['CONTINUE'], p_ident_rule=0.6,
                p_autostart=0.1, autorestart=['false'], startsecs=[0, 1, 1, 2, 4], p_wait_exit=0.0, p_late_boot=0.15,
                late_boot_max=30.0, conciliation_strategies=['USER'], synchro_pool=['TIMEOUT', 'STRICT', 'LIST'],
                need_timeout=True, p_app_sequenced=0.5, p_managed=0.95),
    'C20': dict(builder='puppet', stats=True, p_managed=0.8, p_numprocs=0.1, p_autostart=0.1, n_groups=[1, 2],
                n_programs=[1, 2, 3], child_kinds=SIMPLE_CHILDREN, supvisors_failure_strategies=['CONTINUE'],
                p_auto_fence=0.3, inactivity_ticks=[2, 3], hostile=0.0, window=(18.0, 140.0), quiesce=30.0,
                n_events=(5, 30), n_samples=(40, 400), n_puppets=[1, 2, 2, 3]),
    # puppet sub-profile used as a share of the C10 runs: requests left unanswered by scripted peers, programs removed
    # from them while a request is pending, few conflicts (so that the real instance is mostly in OPERATION)
    'P10': dict(builder='puppet', p_managed=0.9, p_numprocs=0.2, p_autostart=0.0, n_groups=[1, 2], n_programs=[2, 3],
                child_kinds=SIMPLE_CHILDREN, supvisors_failure_strategies=['CONTINUE'], p_auto_fence=0.2,
                conciliation_strategies=['SENICIDE', 'STOP', 'INFANTICIDE'], inactivity_ticks=[2, 3], hostile=0.0,
                window=(25.0, 150.0), quiesce=90.0, n_events=(10, 40), n_real=[1], p_known=1.0,
                weights={'event': 12, 'forced': 2, 'removed': 2, 'added': 3, 'down': 1, 'mute': 1, 'stealth': 0.5,
                         'op': 8, 'op_remove': 12, 'tick': 0.5, 'state': 0.5}),
    'C02': dict(BASE, p_ending_in_election_focus=0.12, max_faults=6, ops='fsm', running_failure=gen.RUNNING_FAILURE + ['RESTART', 'SHUTDOWN'],
                p_autostart=0.4, p_late_boot=0.4,
                fault_weights={'crash': 2, 'restart': 3, 'partition': 2, 'stall': 1, 'slow': 1, 'clock_jump': 0.5,
                               'child_exit': 5},
                p_trigger=0.5, trigger_states=['ELECTION', 'ELECTION', 'ELECTION', 'DISTRIBUTION', 'OPERATION',
                                               'CONCILIATION', 'RESTARTING', 'SHUTTING_DOWN', 'SYNCHRONIZATION'],
                trigger_delays=[0.0, 0.0, 0.0, 0.002, 0.05, 0.5, 2.0]),
    'C16': dict(BASE, mix=[('P16', 0.25)], max_faults=5, ops='all', p_absent=0.3, p_shared_node=0.5),
    # puppet share of C16: instances of one node / cluster knowing different programs, programs and groups removed from
    # and added to the peers, while the real instance is asked to start / stop / restart what is left
    'P16': dict(builder='puppet', p_real_absent=0.6, p_managed=0.9, p_sequenced=0.5, p_numprocs=0.2, p_autostart=0.1,
                n_groups=[1, 2], n_programs=[2, 3, 4], child_kinds=SIMPLE_CHILDREN,
                supvisors_failure_strategies=['CONTINUE'], p_auto_fence=0.2, inactivity_ticks=[2, 3], hostile=0.1,
                window=(25.0, 150.0), quiesce=40.0, n_events=(15, 60), n_real=[1, 1, 2],
                weights={'event': 12, 'forced': 2, 'removed': 10, 'added': 4, 'down': 1, 'mute': 1, 'stealth': 0.5,
                         'op': 12, 'op_remove': 6, 'tick': 0.5, 'state': 0.5, 'disability': 1}),
}


def build(prop, seed):
    prof = PROFILES[prop]
    mix = prof.get('mix')
    if mix:
        # a share of the runs of a puppet profile are real clusters (another profile's scenario, this property's oracle)
        r = random.Random(kernel.hash64(seed, 'mix', prop)).random()
        acc = 0.0
        for base, share in mix:
            acc += share
            if r < acc:
                scen = build(base, seed)
                scen['prop'] = prop
                scen['base_profile'] = base
                return scen
    if prof.get('builder') == 'twin':
        return build_twin(prop, seed, prof)
    if prof.get('builder') == 'puppet':
        from . import puppetgen
        return puppetgen.build(prop, seed, prof)
    rng = random.Random(kernel.hash64(seed, 'gen'))
    config = gen.gen_config(rng, prof)
    plan = gen.gen_boots(rng, prof, config)
    if prof.get('p_empty_instance'):
        # an instance whose Supervisor has no program at all (a spare node): its hand-shake snapshot is empty
        rng_e = random.Random(kernel.hash64(seed, 'empty_instance'))
        if rng_e.random() < prof['p_empty_instance'] and len(config['instances']) >= 2:
            spec_e = gen.pick(rng_e, config['instances'])
            spec_e['absent_programs'] = ['%s:%s' % (g['name'], p_['name']) for g in config['groups'] for p_ in g['programs']]
            spec_e.pop('disabled', None)
    if prof.get('p_multi_app_failure'):
        # several applications of one priority hit by the same loss: the applications share their start_sequence, stay
        # distributed and mostly use the process-level strategy (own random stream: the rest of the scenario is unchanged)
        rng_m = random.Random(kernel.hash64(seed, 'multi_app_failure'))
        if rng_m.random() < prof['p_multi_app_failure']:
            seq = rng_m.randint(0, 2)
            for app_m in config['rules']['applications']:
                app_m['start_sequence'] = seq
                app_m['distribution'] = 'ALL_INSTANCES'
                app_m.pop('identifiers', None)
                app_m['running_failure_strategy'] = gen.pick(rng_m, ['RESTART_PROCESS', 'RESTART_PROCESS', 'CONTINUE'])
                for rule_m in app_m['programs']:
                    if rng_m.random() < 0.7:
                        rule_m.pop('running_failure_strategy', None)
    if rng.random() < prof.get('p_ending_in_election_focus', 0.0):
        # a process whose running failure strategy is SHUTDOWN / RESTART crashes on the freshly elected Master while it is
        # still in ELECTION (the only way to an ending state from ELECTION)
        apps_e = [a for a in config['rules']['applications'] if a.get('programs')]
        if apps_e:
            app = gen.pick(rng, apps_e)
            rule = app['programs'][0]
            rule['running_failure_strategy'] = gen.pick(rng, ['SHUTDOWN', 'RESTART'])
            rule['identifiers'] = '*'
            pname = rule.get('name') or rule['pattern'].rstrip('_')
            grp = next(g for g in config['groups'] if g['name'] == app['name'])
            prog = next(p_ for p_ in grp['programs'] if p_['name'] == pname)
            prog.update({'autostart': True, 'startsecs': 0, 'autorestart': 'false', 'numprocs': 1})
            rule.pop('pattern', None)
            rule['name'] = pname
            config['children'].pop('%s:%s' % (app['name'], pname), None)
            # a single copy, on the instance the election rule picks when everybody boots together
            config['supvisors']['core_identifiers'] = []
            config['supvisors']['synchro_options'] = [o for o in config['supvisors']['synchro_options']
                                                      if o != 'CORE'] or ['STRICT', 'TIMEOUT']
            first = min(s_['nick'] for s_ in config['instances'])
            for spec in config['instances']:
                spec.pop('disabled', None)
                spec['absent_programs'] = [] if spec['nick'] == first else ['%s:%s' % (app['name'], pname)]
            for item in plan:
                item['t'] = round(rng.uniform(0.0, 1.5), 3)
            plan[0]['t'] = 0.0
            for _k in range(rng.randint(1, 3)):
                plan.append({'kind': 'child_exit', 'inst': '$trigger', 'namespec': '%s:%s' % (app['name'], pname), 'code': 1,
                             'trigger': {'state': 'ELECTION', 'inst': '*', 'master': True,
                                         'delay': round(rng.uniform(0.0, 6.0), 3), 'after': 5.0, 'before': 150.0}})
            return {'prop': prop, 'seed': seed, 'config': config, 'plan': plan, 't_end': 200.0}
    if rng.random() < prof.get('p_stop_focus', 0.0):
        # STOP starting failure strategy in focus: one sequenced application whose second group holds a required program
        # that fails at once and other programs that fail later or start slowly; nothing else disturbs the run
        apps_f = [a for a in config['rules']['applications'] if len(a.get('programs', [])) >= 3]
        if apps_f:
            app = gen.pick(rng, apps_f)
            app['starting_failure_strategy'] = 'STOP'
            app['start_sequence'] = 1
            app['distribution'] = 'ALL_INSTANCES'
            app.pop('identifiers', None)
            grp = next(g for g in config['groups'] if g['name'] == app['name'])
            progs = {p_['name']: p_ for p_ in grp['programs']}
            for k, rule in enumerate(app['programs']):
                pname = rule.get('name') or rule['pattern'].rstrip('_')
                rule['identifiers'] = '*'
                rule['expected_loading'] = 0
                rule.pop('starting_failure_strategy', None)
                rule['wait_exit'] = False
                key = '%s:%s' % (app['name'], pname)
                config['children'].pop(key, None)
                progs[pname]['autostart'] = False
                if k == 0:
                    rule['start_sequence'], rule['required'] = 1, True
                elif k == 1:
                    rule['start_sequence'], rule['required'] = 2, True
                    progs[pname]['startretries'] = 0
                    config['children'][key] = gen.pick(rng, [{'exec_fail': True}, {'exit_after': 0.05, 'exit_code': 1}])
                    progs[pname]['startsecs'] = max(1, progs[pname].get('startsecs', 1))
                else:
                    rule['start_sequence'] = 2
                    rule['required'] = rng.random() < 0.3
                    if rule['required']:
                        rule['starting_failure_strategy'] = gen.pick(rng, ['CONTINUE', 'ABORT'])
                    progs[pname]['startretries'] = rng.randint(1, 3)
                    progs[pname]['startsecs'] = gen.pick(rng, [2, 4, 8])
                    beh = gen.pick(rng, ['fail_later', 'fail_later', 'ok'])
                    if beh == 'fail_later':
                        config['children'][key] = {'exit_after': round(rng.uniform(0.2, 1.5), 3), 'exit_code': 1}
            for spec in config['instances']:
                spec.pop('absent_programs', None)
                spec.pop('disabled', None)
            for item in plan:
                item['t'] = round(rng.uniform(0.0, 1.5), 3)
            plan[0]['t'] = 0.0
            t_end = 160.0
            scen_f = {'prop': prop, 'seed': seed, 'config': config, 'plan': plan, 't_end': t_end}
            if rng.random() < 0.4 and len(config['instances']) >= 2:
                # variant: the required program never answers instead of failing (it starts on another instance than the
                # requester and none of its events arrives): the request times out, possibly as the last one in flight
                rule1 = app['programs'][1]
                key1 = '%s:%s' % (app['name'], rule1.get('name') or rule1['pattern'].rstrip('_'))
                config['children'].pop(key1, None)
                first = min(s_['nick'] for s_ in config['instances'])
                for spec in config['instances']:
                    if spec['nick'] == first:
                        spec['absent_programs'] = [key1]
                if progs[key1.split(':')[1]].get('numprocs', 1) == 1:
                    scen_f['event_drop'] = {'rate': 1.0, 'ns': [key1]}
                    scen_f['t_end'] = 220.0
            elif rng.random() < 0.4 and len(config['instances']) >= 3:
                # variant: the required program does not fail by itself, its host is lost right after the request (before any
                # event); a third level follows, which ABORT / STOP must not request
                rule1 = app['programs'][1]
                key1 = '%s:%s' % (app['name'], rule1.get('name') or rule1['pattern'].rstrip('_'))
                config['children'].pop(key1, None)
                app['starting_failure_strategy'] = gen.pick(rng, ['STOP', 'ABORT'])
                app['programs'][-1]['start_sequence'] = 3
                first = min(s_['nick'] for s_ in config['instances'])
                for spec in config['instances']:
                    if spec['nick'] == first:
                        spec['absent_programs'] = [key1]
                plan.append({'kind': 'crash', 'inst': '$dst',
                             'trigger': {'wire': 'supvisors.start_args', 'n': rng.randint(2, 3), 'after': 5.0,
                                         'delay': gen.pick(rng, [0.0, 0.0, 0.001, 0.05])}})
            return scen_f
    if rng.random() < prof.get('p_join_only', 0.0) and len(config['instances']) >= 3:
        # join-only run: nothing but boots and slow (directed) links, the last joiner being the instance the election
        # rule prefers (lowest nick, or a core member) and hearing the established Master late
        nicks_ = sorted(s_['nick'] for s_ in config['instances'])
        core_ = config['supvisors'].get('core_identifiers') or []
        joiner = gen.pick(rng, [nicks_[0], nicks_[0]] + list(core_[:1]) + [gen.pick(rng, nicks_)])
        t_join = rng.uniform(60.0, 110.0)
        for item in plan:
            item['t'] = round(rng.uniform(0.0, 2.0), 3)
            if item['inst'] == joiner:
                item['t'] = round(t_join, 3)
        min(plan, key=lambda i: i['t'])['t'] = 0.0
        others = [n for n in nicks_ if n != joiner]
        for src in rng.sample(others, rng.randint(1, max(1, len(others) - 1))):
            plan.append({'t': round(t_join - rng.uniform(1.0, 5.0), 3), 'kind': 'slow', 'src': src, 'dst': joiner,
                         'extra': round(rng.uniform(0.5, 3.5), 3), 'd': round(rng.uniform(20.0, 70.0), 3)})
    else:
        plan += gen.gen_faults(rng, prof, config)
    from . import ops
    plan += ops.gen_ops(rng, prof, config)
    if rng.random() < prof.get('p_crash_near_op', 0.0):
        # a host lost around a start request: dead but not yet detected when the request leaves, or lost between the
        # request and its first event
        starts = [i for i in plan if i['kind'] == 'rpc' and i['method'].split('.')[-1] in
                  ('start_application', 'restart_application', 'start_process', 'restart_process', 'restart_sequence')
                  and 't' in i]
        nicks = [s_['nick'] for s_ in config['instances']]
        if starts and len(nicks) > 1:
            op = gen.pick(rng, starts)
            if rng.random() < 0.5:
                plan.append({'t': round(max(1.0, op['t'] - rng.uniform(0.2, 9.0)), 3), 'kind': 'crash',
                             'inst': gen.pick(rng, nicks)})
            else:
                plan.append({'kind': 'crash', 'inst': '$dst',
                             'trigger': {'wire': 'supvisors.start_args', 'n': rng.randint(1, 4), 'after': op['t'] - 1.0,
                                         'delay': gen.pick(rng, [0.0, 0.0, 0.001, 0.05, 0.5])}})
    if rng.random() < prof.get('p_heal_disable_burst', 0.0) and len(config['instances']) >= 2:
        # a partition long enough for both sides to lose each other, a heal, then a burst of disable requests on one side
        # spread over the seconds in which the other side hand-shakes with it again, then starts asked to the other side
        nicks_b = [s_['nick'] for s_ in config['instances']]
        a, b = rng.sample(nicks_b, 2)
        t_p = rng.uniform(35.0, 50.0)
        t_h = t_p + rng.uniform(30.0, 45.0)
        pairs = [[x, y] for x in nicks_b for y in nicks_b if x != y and (x == b) != (y == b)]
        plan.append({'t': round(t_p, 3), 'kind': 'partition', 'pairs': pairs, 'mode': 'refuse'})
        plan.append({'t': round(t_h, 3), 'kind': 'heal', 'pairs': None})
        progs_b = [p_['name'] for g in config['groups'] for p_ in g['programs']]
        rng.shuffle(progs_b)
        for i, prog in enumerate(progs_b[:12]):
            plan.append({'t': round(t_h + 0.5 + 0.8 * i + rng.uniform(0.0, 0.6), 3), 'kind': 'rpc', 'inst': b,
                         'method': 'supvisors.disable', 'args': [prog, False]})
        for i, ns in enumerate(rng.sample(gen.namespecs_of(config), min(8, len(gen.namespecs_of(config))))):
            plan.append({'t': round(t_h + 50.0 + 3.0 * i, 3), 'kind': 'rpc', 'inst': a,
                         'method': 'supvisors.start_process', 'args': [gen.pick(rng, [0, 1, 2, 4, 5]), ns, '', False]})
    if prof.get('p_disable_in_handshake'):
        # a program disabled / enabled on an instance while its peers are still hand-shaking with it (late boot, restart)
        progs = [p_['name'] for g in config['groups'] for p_ in g['programs']]
        for item in list(plan):
            if 't' in item and item['kind'] == 'heal' and progs and rng.random() < prof['p_disable_in_handshake']:
                # after a heal both sides hand-shake again while each of them is still in OPERATION
                nicks_h = [s_['nick'] for s_ in config['instances']]
                for _k in range(rng.randint(1, 3)):
                    plan.append({'t': round(item['t'] + rng.uniform(2.0, 22.0), 3), 'kind': 'rpc',
                                 'inst': gen.pick(rng, nicks_h),
                                 'method': 'supvisors.' + gen.pick(rng, ['disable', 'disable', 'enable']),
                                 'args': [gen.pick(rng, progs), False]})
                continue
            if 't' not in item or item['kind'] not in ('boot', 'restart') or not progs:
                continue
            if item['kind'] == 'boot' and item['t'] < 5.0:
                continue
            if rng.random() < prof['p_disable_in_handshake']:
                t_up = item['t'] + (item.get('delay', 0.0) if item['kind'] == 'restart' else 0.0)
                t_dis = round(t_up + rng.uniform(1.0, 14.0), 3)
                meth_d = gen.pick(rng, ['disable', 'disable', 'enable'])
                prog_d = gen.pick(rng, progs)
                plan.append({'t': t_dis, 'kind': 'rpc', 'inst': item['inst'], 'method': 'supvisors.' + meth_d,
                             'args': [prog_d, False]})
                # ... and, once the publication has had all the time to travel, a start of that very program asked to
                # somebody else (own random stream: the rest of the plan is unchanged)
                rng_d = random.Random(kernel.hash64(seed, 'start_after_disable', len(plan)))
                cands = [ns_ for ns_ in gen.namespecs_of(config)
                         if ns_.split(':')[1] == prog_d or ns_.split(':')[1].startswith(prog_d + '_')]
                others = [s_['nick'] for s_ in config['instances'] if s_['nick'] != item['inst']]
                if cands and others and rng_d.random() < 0.6:
                    plan.append({'t': round(t_dis + rng_d.uniform(22.0, 70.0), 3), 'kind': 'rpc',
                                 'inst': gen.pick(rng_d, others + ['$master']), 'method': 'supvisors.start_process',
                                 'args': [gen.pick(rng_d, ['CONFIG', 'LESS_LOADED', 'MOST_LOADED']), gen.pick(rng_d, cands),
                                          '', False]})
    if prof.get('p_ending_op_near_loss'):
        # restart / shutdown asked to some instance in the seconds that follow the loss of an instance (possibly the
        # Master: the others have no Master until their next evaluation)
        nicks_e = [s_['nick'] for s_ in config['instances']]
        for item in list(plan):
            if item['kind'] in ('crash', 'restart') and rng.random() < prof['p_ending_op_near_loss']:
                op = {'kind': 'rpc', 'inst': gen.pick(rng, nicks_e + ['$nonmaster']),
                      'method': 'supvisors.' + gen.pick(rng, ['shutdown', 'restart']), 'args': []}
                if 't' in item:
                    op['t'] = round(item['t'] + rng.uniform(0.05, 14.0), 3)
                elif 'trigger' in item:
                    op['trigger'] = dict(item['trigger'], delay=round(item['trigger'].get('delay', 0.0)
                                                                      + rng.uniform(0.05, 14.0), 3))
                plan.append(op)
    for _ in range(gen.pick(rng, prof.get('ops_pairs', [0]))):
        # a request creating jobs on one instance, closely followed by restart_sequence on another one
        nicks_ = [s_['nick'] for s_ in config['instances']]
        if len(nicks_) < 2:
            break
        a, b = rng.sample(nicks_, 2)
        t = rng.uniform(60.0, prof['fault_window'][1] - 10.0)
        app = gen.pick(rng, [g['name'] for g in config['groups']])
        method, args = gen.pick(rng, [('start_application', [0, app, False]), ('restart_application', [0, app, False]),
                                      ('stop_application', [app, False]),
                                      ('start_process', [0, gen.pick(rng, gen.namespecs_of(config)), '', False])])
        plan.append({'t': round(t, 3), 'kind': 'rpc', 'inst': b, 'method': 'supvisors.' + method, 'args': args})
        plan.append({'t': round(t + rng.uniform(0.02, 3.0), 3), 'kind': 'rpc', 'inst': a,
                     'method': 'supvisors.restart_sequence', 'args': [False]})
    if prof.get('p_stop_before_crash'):
        # a process stopped directly on the victim's Supervisor (not through the Master's Stopper) shortly before the crash:
        # with a slow stop it is still STOPPING there when the instance is lost
        for fault in [i for i in plan if i['kind'] == 'crash']:
            if rng.random() < prof['p_stop_before_crash']:
                ns = gen.pick(rng, gen.namespecs_of(config))
                if rng.random() < 0.4:
                    ns = ns.split(':')[0] + ':*'
                op = {'kind': 'rpc', 'inst': fault['inst'], 'method': 'supervisor.stopProcess', 'args': [ns, False]}
                if 't' in fault:
                    op['t'] = round(max(1.0, fault['t'] - rng.uniform(0.05, 2.5)), 3)
                    plan.append(op)
    if prof.get('ops_near_fault'):
        # user operations landing between a crash and its detection: the loss is then handled while the Master's
        # Starter / Stopper is busy with something else
        apps = [g['name'] for g in config['groups']]
        ticks = config['supvisors'].get('inactivity_ticks', 2)
        for fault in [i for i in plan if i['kind'] == 'crash' and 't' in i]:
            for _ in range(gen.pick(rng, prof['ops_near_fault'])):
                method = gen.pick(rng, ['start_application', 'restart_application', 'stop_application'])
                args = [gen.pick(rng, apps), False] if method == 'stop_application' else [0, gen.pick(rng, apps), False]
                plan.append({'t': round(fault['t'] + rng.uniform(0.0, 5.0 * ticks + 6.0), 3), 'kind': 'rpc',
                             'inst': '$master', 'method': 'supvisors.' + method, 'args': args})
    t_end = prof['fault_window'][1] + prof['quiesce'] + config['supvisors']['synchro_timeout']
    scen = {'prop': prop, 'seed': seed, 'config': config, 'plan': plan, 't_end': t_end}
    if prof.get('event_drop'):
        scen['event_drop'] = {'rate': gen.pick(rng, [0.0, 0.05, 0.2, 0.5, 0.9])}
    return scen


def build_twin(prop, seed, prof):
    rng = random.Random(kernel.hash64(seed, 'gen'))
    config = gen.gen_config(rng, prof)
    plan = gen.gen_boots(rng, prof, config)
    nicks = [s['nick'] for s in config['instances']]
    namespecs = gen.namespecs_of(config)
    apps = [g['name'] for g in config['groups']]
    from . import ops
    # some load before the probe
    for _ in range(rng.randint(0, 4)):
        ns = gen.pick(rng, namespecs)
        method, args = gen.pick(rng, [('supvisors.start_process', [ops._strategy(rng, 0.0), ns, '', False]),
                                      ('supvisors.start_process', [ops._strategy(rng, 0.0), ns, '', False]),
                                      ('supvisors.start_application', [ops._strategy(rng, 0.0), ns.split(':')[0], False]),
                                      ('supervisor.startProcess', [ns, False])])
        plan.append({'t': round(rng.uniform(55.0, 90.0), 3), 'kind': 'rpc', 'inst': gen.pick(rng, nicks + ['$master']),
                     'method': method, 'args': args})
    t_probe = 120.0
    mode = gen.pick(rng, ['application', 'application', 'process'])
    if mode == 'application':
        name = gen.pick(rng, apps)
    else:
        name = gen.pick(rng, namespecs)
        if rng.random() < 0.3:
            name = name.split(':')[0] + ':*'
    plan.append({'t': t_probe, 'kind': 'probe', 'inst': gen.pick(rng, nicks + ['$master']), 'mode': mode,
                 'strategy': ops._strategy(rng, 0.0), 'name': name, 'repeat': rng.randint(1, 3)})
    return {'prop': prop, 'seed': seed, 'config': config, 'plan': plan, 't_end': t_probe + 70.0}


def observers_for(prop, scen):
    from oracles import common
    from oracles import cluster
    obs = [common.InternalErrors(), common.StateGraph()]
    if prop == 'C01':
        obs.append(cluster.MasterConvergence())
    elif prop == 'C08':
        obs.append(cluster.Liveness())
    elif prop in ('C03', 'C04', 'C14'):
        from oracles import starts
        obs.append(starts.StartRequests(app_plans_only=(prop == 'C03')))
    elif prop == 'C06':
        from oracles import failure
        obs.append(failure.RunningFailure())
    elif prop == 'C09':
        from oracles import stops
        obs.append(stops.StopRequests())
    elif prop == 'C10':
        from oracles import jobs
        obs.append(jobs.JobTermination())
    elif prop == 'C05':
        from oracles import conciliation
        obs.append(conciliation.Conciliation())
    elif prop == 'C12':
        from oracles import agreement
        obs.append(agreement.Agreement())
    elif prop == 'C07':
        from oracles import detection
        obs.append(detection.FailureDetection())
    elif prop == 'C13':
        from oracles import isolation
        obs.append(isolation.Isolation())
    elif prop == 'C17':
        from oracles import gating
        obs.append(gating.Gating())
    elif prop == 'C20':
        from oracles import statistics
        obs.append(statistics.StatsInvariants())
    elif prop == 'C15':
        from oracles import appstatus
        obs.append(appstatus.ApplicationStatusMonitor())
    elif prop == 'C11':
        from oracles import synthesis
        obs.append(synthesis.Synthesis())
    return obs


def make_run(prop, scen):
    if prop == 'C19':
        from oracles import common, prediction
        return prediction.TwinRun(scen, lambda: [common.InternalErrors(), common.StateGraph()])
    run = Run(scen['config'], scen['plan'], scen['seed'], observers=observers_for(prop, scen), t_end=scen['t_end'])
    drop = scen.get('event_drop')
    if drop:
        install_event_drop(run, drop)
    return run


def install_event_drop(run, drop):
    """ C10 profile only: PROCESS publications silently lost (not producible by TCP, but C10 is quantified over it). """
    import json
    sim = run.sim
    rate = drop['rate']
    only = set(drop['ns']) if drop.get('ns') else None   # 'never answering' processes: their events only

    def rpc_filter(sim_, rec, args):
        if rec['method'] != 'supervisor.sendRemoteCommEvent' or rec['src'] == rec['dst']:
            return None
        try:
            if args[0] != 'SupvisorsPublication':
                return None
            _origin, (header, body) = json.loads(args[1])
        except Exception:  # noqa
            return None
        if header != 1:
            return None
        if only is not None and '%s:%s' % (body.get('group'), body.get('name')) not in only:
            return None
        r = sim.rng('event_drop', rec['src'], rec['dst'])
        if r.random() < rate:
            run.fault_counts['event_drop'] += 1
            return 'drop'
        return None
    sim.rpc_filter = rpc_filter


def describe(prop):
    prof = PROFILES[prop]
    return {k: (v if isinstance(v, (int, float, str, list, tuple, dict, bool)) else str(v)) for k, v in prof.items()
            if k != 'builder'}
