"""Per-property profiles: distributions for configuration, operations, faults, run length; oracle sets."""
import random

from . import gen, kernel
from .scenario import Run

BASE = {
    'fault_window': (20.0, 200.0),
    'quiesce': 150.0,
}

PROFILES = {
    'C02': dict(BASE, max_faults=5, ops='fsm'),
    'C16': dict(BASE, max_faults=5, ops='all', p_absent=0.3, p_shared_node=0.5),
}


def build(prop, seed):
    prof = PROFILES[prop]
    builder = prof.get('builder')
    if builder:
        return builder(prop, seed, prof)
    rng = random.Random(kernel.hash64(seed, 'gen'))
    config = gen.gen_config(rng, prof)
    plan = gen.gen_boots(rng, prof, config)
    plan += gen.gen_faults(rng, prof, config)
    from . import ops
    plan += ops.gen_ops(rng, prof, config)
    t_end = prof['fault_window'][1] + prof['quiesce'] + config['supvisors']['synchro_timeout']
    return {'prop': prop, 'seed': seed, 'config': config, 'plan': plan, 't_end': t_end}


def observers_for(prop, scen):
    from oracles import common
    obs = [common.InternalErrors(), common.StateGraph()]
    return obs


def make_run(prop, scen):
    return Run(scen['config'], scen['plan'], scen['seed'], observers=observers_for(prop, scen), t_end=scen['t_end'])


def describe(prop):
    prof = PROFILES[prop]
    return {k: (v if isinstance(v, (int, float, str, list, tuple, dict, bool)) else str(v)) for k, v in prof.items()
            if k != 'builder'}
