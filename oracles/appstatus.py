"""C15: application state and operational status follow their definition, after every change, for every formula.

A monitor recomputes, after every event handled by a real instance, the state / major / minor failure of every
application from the process statuses the instance reports (displayed state, expected exit) and the rules (required,
managed, operational_status formula evaluated by an independent evaluator written from the documentation), and compares
with get_application_info. Hostile formulas must never execute anything: a canary file must not appear."""
import ast
import os
import re

from supvsim.scenario import Observer, frozen

STOPPED, STARTING, RUNNING, BACKOFF, STOPPING, EXITED, FATAL, UNKNOWN = 0, 10, 20, 30, 40, 100, 200, 1000

CANARY = '/tmp/supvsim_canary_%d'


class Unsupported(Exception):
    pass


def ref_eval(node, names, status):
    """ Independent evaluator. Returns a bool or a list of bools; raises Unsupported. """
    if isinstance(node, ast.Constant):
        if type(node.value) is not str:
            raise Unsupported('non-string operand')
        leaf = node.value
        if leaf in names:
            return status(leaf)
        try:
            pattern = re.compile('^%s$' % leaf)
        except re.error:
            raise Unsupported('bad pattern')
        matches = [n for n in names if pattern.match(n)]
        if not matches:
            raise Unsupported('no match')
        if len(matches) == 1:
            return status(matches[0])
        return [status(n) for n in matches]
    if isinstance(node, ast.Call):
        if not isinstance(node.func, ast.Name) or node.func.id not in ('any', 'all'):
            raise Unsupported('function')
        if len(node.args) != 1 or node.keywords:
            raise Unsupported('arguments')
        arg = ref_eval(node.args[0], names, status)
        if type(arg) is bool:
            arg = [arg]
        return any(arg) if node.func.id == 'any' else all(arg)
    if isinstance(node, ast.BoolOp):
        vals = [ref_eval(v, names, status) for v in node.values]
        if any(type(v) is not bool for v in vals):
            raise Unsupported('unresolved operand')
        return all(vals) if isinstance(node.op, ast.And) else any(vals)
    if isinstance(node, ast.UnaryOp) and isinstance(node.op, ast.Not):
        val = ref_eval(node.operand, names, status)
        if type(val) is not bool:
            raise Unsupported('unresolved operand')
        return not val
    raise Unsupported(type(node).__name__)


def ref_formula(formula, names, status):
    """ 'none' (the formula is not retained: fall back to required), True / False (major failure). """
    try:
        tree = ast.parse(formula)
    except (SyntaxError, ValueError):
        return 'none'
    if len(tree.body) != 1:
        return 'none'
    stmt = tree.body[0]
    if not isinstance(stmt, ast.Expr):
        return True   # any other construct: major failure
    try:
        res = ref_eval(stmt.value, names, status)
    except Unsupported:
        return True
    except RecursionError:
        return True
    if type(res) is not bool:
        return True
    return not res


class ApplicationStatusMonitor(Observer):
    prop = 'C15'

    def __init__(self):
        super().__init__()
        self.probes = {}
        self.formulas = {}
        self.last = {}

    def _probe(self, name):
        self.probes[name] = self.probes.get(name, 0) + 1

    def attach(self, run):
        super().attach(run)
        for app in run.config['rules'].get('applications', []):
            if app.get('operational_status') is not None and 'name' in app:
                self.formulas[app['name']] = app['operational_status']

    def after_event(self, sim, inst, kind):
        if not inst.alive or inst.supvisors is None:
            return
        ctx = inst.supvisors.context
        from supervisor.xmlrpc import RPCError
        for name, app in list(ctx.applications.items()):
            with frozen(sim, inst):
                try:
                    real = inst.rpcif.get_application_info(name)
                except RPCError:
                    real = app.serial()
                procs = {p.process_name: p.serial() for p in app.processes.values()}
            rules = {p.process_name: p.rules for p in app.processes.values()}
            key = (inst.nick, inst.incarnation, name)
            sig = (tuple(sorted((n, s['statecode'], s['expected_exit']) for n, s in procs.items())),
                   real['statename'], real['major_failure'], real['minor_failure'])
            if self.last.get(key) == sig:
                continue
            self.last[key] = sig
            self._check(inst, name, app, real, procs, rules)

    def _check(self, inst, name, app, real, procs, rules):
        states = [s['statecode'] for s in procs.values()]
        if STOPPING in states:
            want = 'STOPPING'
        elif STARTING in states or BACKOFF in states:
            want = 'STARTING'
        elif RUNNING in states:
            want = 'RUNNING'
        else:
            want = 'STOPPED'
        self._probe('state_%s' % want)
        detail = {'inst': inst.nick, 'application': name, 'reported': {k: real[k] for k in
                                                                     ('statename', 'major_failure', 'minor_failure')},
                  'processes': {n: (s['statecode'], s['expected_exit'], bool(rules[n].required)) for n, s in procs.items()}}
        if real['statename'] != want:
            self.violate('state', dict(detail, expected=want), 'application-state')
            return

        def failing(s):
            return s['statecode'] in (FATAL, UNKNOWN) or (s['statecode'] == EXITED and not s['expected_exit'])

        def status(n):
            s = procs[n]
            return s['statecode'] in (STARTING, RUNNING, BACKOFF) or (s['statecode'] == EXITED and s['expected_exit'])

        formula = self.formulas.get(name)
        managed = bool(app.rules.managed)
        mode = 'none'
        if formula is not None and managed:
            mode = ref_formula(formula, set(procs), status)
        if mode == 'none':
            major = any(rules[n].required and (failing(s) or (s['statecode'] == STOPPED and want != 'STOPPED'))
                        for n, s in procs.items())
            self._probe('required_major' if major else 'required_no_major')
            if formula is not None and managed:
                self._probe('formula_not_retained')
            if real['major_failure'] != major:
                self.violate('major', dict(detail, expected=major, formula=formula), 'major-failure:required')
                return
            if not major and managed:
                minor = any(not rules[n].required and failing(s) for n, s in procs.items())
                if minor and not real['minor_failure']:
                    self.violate('minor', dict(detail, expected=True), 'minor-failure-missing')
                elif real['minor_failure'] and not any(not rules[n].required and (failing(s) or s['statecode'] == STOPPED)
                                                       for n, s in procs.items()):
                    self.violate('minor', dict(detail, expected=False), 'minor-failure-unfounded')
            if major and real['minor_failure']:
                self.violate('minor', dict(detail, expected=False), 'minor-with-major')
            if not managed and real['minor_failure']:
                self.violate('minor', dict(detail, expected=False), 'minor-failure-unmanaged')
        else:
            self._probe('formula_major' if mode else 'formula_ok')
            if real['major_failure'] != mode:
                self.violate('major', dict(detail, expected=mode, formula=formula), 'major-failure:formula')

    def finish(self):
        path = CANARY % self.run.seed
        if os.path.exists(path):
            os.unlink(path)
            self.violate('side-effect', {'file': path}, 'formula-executed')
