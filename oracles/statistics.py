"""C20: statistics histories stay bounded, aligned and sane, after every sample of every stream."""
import math

from supvsim.scenario import Observer

EPS = 1e-6


class StatsInvariants(Observer):
    prop = 'C20'

    def __init__(self):
        super().__init__()
        self.probes = {}
        self.ncores = {}

    def _probe(self, name, n=1):
        self.probes[name] = self.probes.get(name, 0) + n

    def attach(self, run):
        super().attach(run)
        self.ncores = dict(run.config.get('stats_ncores', {}))

    def on_boot(self, sim, inst):
        sv = inst.supvisors
        obs = self
        host, proc = sv.host_compiler, sv.process_compiler
        o_host, o_proc = host.push_statistics, proc.push_statistics

        def push_host(identifier, stats):
            try:
                res = o_host(identifier, stats)
            except Exception as exc:  # noqa
                obs.violate('exception', {'inst': inst.nick, 'compiler': 'host', 'error': repr(exc)},
                            'exception:host:%s' % type(exc).__name__)
                raise
            obs._probe('host_samples')
            obs._check_results(inst, res, 'host')
            obs._check_host(inst, host, identifier)
            return res

        def push_proc(identifier, stats):
            try:
                res = o_proc(identifier, stats)
            except Exception as exc:  # noqa
                obs.violate('exception', {'inst': inst.nick, 'compiler': 'process', 'error': repr(exc)},
                            'exception:process:%s' % type(exc).__name__)
                raise
            obs._probe('process_samples')
            obs._check_results(inst, res, 'process')
            obs._check_proc(inst, proc, identifier, stats)
            return res
        host.push_statistics = push_host
        proc.push_statistics = push_proc

    # --- integrated points -------------------------------------------------------------------------------------------
    def _check_results(self, inst, results, kind):
        for r in results or []:
            self._probe('%s_points' % kind)
            a, b = r['period']
            if b - a < r['target_period'] - EPS:
                self.violate('period', {'inst': inst.nick, 'kind': kind, 'result': {k: r[k] for k in
                                                                                    ('period', 'target_period')}},
                             'point-before-period:%s' % kind)

    # --- host structures ---------------------------------------------------------------------------------------------
    def _check_host(self, inst, compiler, identifier):
        depth = inst.supvisors.options.stats_histo
        for period, h in compiler.instance_map.get(identifier, {}).items():
            where = {'inst': inst.nick, 'identifier': identifier, 'period': period}
            n = len(h.times)
            if n > depth:
                self.violate('bounded', dict(where, series='times', size=n, depth=depth), 'unbounded:host:times')
            if len(h.mem) != n:
                self.violate('aligned', dict(where, series='mem', size=len(h.mem), times=n), 'misaligned:host:mem')
            for i, lst in enumerate(h.cpu):
                if len(lst) != n:
                    self.violate('aligned', dict(where, series='cpu[%d]' % i, size=len(lst), times=n),
                                 'misaligned:host:cpu')
                if any(not (0.0 - EPS <= v <= 100.0 + EPS) for v in lst):
                    self.violate('range', dict(where, series='cpu[%d]' % i, values=lst[-3:]), 'cpu-out-of-range:host')
            self._check_times(h.times, period, where, 'host')
            for name, table, nvals in (('net_io', h.net_io, 2), ('disk_io', h.disk_io, 2), ('disk_usage', h.disk_usage, 1)):
                for intf, (uptimes, values) in table.items():
                    if len(uptimes) > depth:
                        self.violate('bounded', dict(where, series=name, entity=intf, size=len(uptimes), depth=depth),
                                     'unbounded:host:%s' % name)
                    if len(values) != nvals or any(len(v) != len(uptimes) for v in values):
                        self.violate('aligned', dict(where, series=name, entity=intf, times=len(uptimes),
                                                     sizes=[len(v) for v in values]), 'misaligned:host:%s' % name)
                    for v in values:
                        if any((not math.isfinite(x)) or x < 0 for x in v):
                            self.violate('range', dict(where, series=name, entity=intf, values=v[-3:]),
                                         'rate-not-sane:host:%s' % name)
                    self._check_times(uptimes, period, dict(where, entity=intf), 'host:%s' % name)
                    if uptimes:
                        self._probe('host_timed_series_nonempty')

    def _check_times(self, times, period, where, kind):
        for a, b in zip(times, times[1:]):
            if b - a < period - EPS:
                self.violate('period', dict(where, times=times[-4:]), 'points-closer-than-period:%s' % kind)
                break

    # --- process structures ------------------------------------------------------------------------------------------
    def _check_proc(self, inst, compiler, identifier, stats):
        depth = inst.supvisors.options.stats_histo
        ns = stats['namespec']
        holder = compiler.holder_map.get(ns)
        if stats['pid'] == 0:
            self._probe('process_stopped_samples')
            for period in inst.supvisors.options.stats_periods:
                if compiler.get_stats(ns, identifier, period) is not None:
                    self.violate('dropped', {'inst': inst.nick, 'namespec': ns, 'identifier': identifier},
                                 'stopped-process-history-kept')
            if holder is not None and not holder.instance_map:
                self.violate('dropped', {'inst': inst.nick, 'namespec': ns}, 'empty-holder-kept')
            return
        if holder is None:
            self.violate('missing', {'inst': inst.nick, 'namespec': ns}, 'holder-missing')
            return
        for ident, (pid, per_period) in holder.instance_map.items():
            ncores = self.ncores.get(ident, 4)
            for period, p in per_period.items():
                where = {'inst': inst.nick, 'namespec': ns, 'identifier': ident, 'period': period, 'pid': pid}
                n = len(p.times)
                if n > depth or len(p.cpu) > depth or len(p.mem) > depth:
                    self.violate('bounded', dict(where, sizes=[n, len(p.cpu), len(p.mem)], depth=depth),
                                 'unbounded:process')
                if len(p.cpu) != n or len(p.mem) != n:
                    self.violate('aligned', dict(where, sizes=[n, len(p.cpu), len(p.mem)]), 'misaligned:process')
                if any((not math.isfinite(v)) or v < -EPS or v > 100.0 * ncores + EPS for v in p.cpu):
                    self.violate('range', dict(where, values=p.cpu[-3:], ncores=ncores), 'cpu-out-of-range:process')
                self._check_times(p.times, period, where, 'process')
                if ident == identifier and pid != stats['pid']:
                    self.violate('pid', dict(where, sample_pid=stats['pid']), 'history-of-another-pid')
                if n:
                    self._probe('process_series_nonempty')
                if n == depth:
                    self._probe('process_series_full')
