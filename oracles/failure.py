"""C06: running failure strategies are applied once, by the Master, with precedence."""
from supvsim.scenario import Observer, frozen
from supvsim.kernel import US
from oracles.agreement import truth

PRECEDENCE = {'CONTINUE': 0, 'RESTART_PROCESS': 1, 'RESTART_APPLICATION': 2, 'STOP_APPLICATION': 3}


class RefHandler:
    """ Reference model of the four job sets with the documented precedence. Elements: application names and
    namespecs. `sequenced(app)` gives the namespecs in the application start sequence. """

    def __init__(self):
        self.stop_app, self.restart_app, self.restart_proc, self.cont = set(), set(), set(), set()

    def add(self, strategy, app, ns, sequenced):
        if strategy == 'STOP_APPLICATION':
            self.stop_app.add(app)
            self.restart_app.discard(app)
            self.restart_proc = {p for p in self.restart_proc if p.split(':')[0] != app}
            self.cont = {p for p in self.cont if p.split(':')[0] != app}
        elif strategy == 'RESTART_APPLICATION':
            if app in self.stop_app:
                return
            self.restart_app.add(app)
            self.restart_proc = {p for p in self.restart_proc if not (p.split(':')[0] == app and p in sequenced)}
            self.cont = {p for p in self.cont if not (p.split(':')[0] == app and p in sequenced)}
        elif strategy == 'RESTART_PROCESS':
            if app in self.stop_app or (app in self.restart_app and ns in sequenced):
                return
            self.restart_proc.add(ns)
            self.cont.discard(ns)
        elif strategy == 'CONTINUE':
            if app in self.stop_app or (app in self.restart_app and ns in sequenced) or ns in self.restart_proc:
                return
            self.cont.add(ns)

    def snapshot(self):
        return (frozenset(self.stop_app), frozenset(self.restart_app), frozenset(self.restart_proc),
                frozenset(self.cont))


def real_snapshot(handler):
    return (frozenset(a.application_name for a in handler.stop_application_jobs),
            frozenset(a.application_name for a in handler.restart_application_jobs),
            frozenset(p.namespec for p in handler.restart_process_jobs),
            frozenset(p.namespec for p in handler.continue_process_jobs))


class RunningFailure(Observer):
    prop = 'C06'

    def __init__(self, end_to_end=True):
        super().__init__()
        self.probes = {}
        self.refs = {}
        self.end_to_end = end_to_end
        self.losses = []     # loss episodes
        self.requests = []   # (t_us, sender nick, kind, ns, target)
        self.crashes = []    # process crashes
        self.distributions = []
        self.no_resource = []

    def _probe(self, name):
        self.probes[name] = self.probes.get(name, 0) + 1

    # --- handler-level reference model ----------------------------------------------------------
    def on_boot(self, sim, inst):
        handler = inst.supvisors.failure_handler
        ref = RefHandler()
        self.refs[(inst.nick, inst.incarnation)] = ref
        obs = self
        orig_add, orig_abort, orig_trigger = handler.add_job, handler.abort, handler.trigger_jobs

        def resync():
            s = real_snapshot(handler)
            ref.stop_app, ref.restart_app, ref.restart_proc, ref.cont = map(set, s)

        def add_job(strategy, process):
            # "applies to each managed process that was RUNNING only there": a process that was already STOPPING on the
            # lost instance (stopped by hand, slow stop) is not a running failure
            for loss in obs.losses[-2:]:
                if sim.now_us - loss['t_us'] < 45 * US and process.namespec in loss.get('stopping_there', ()) \
                        and process.namespec not in loss['only_there']:
                    # ... as far as the Master knew: the STOPPING event of the lost instance must have reached it
                    victim = loss['inst']
                    group, _, name = process.namespec.partition(':')
                    if not any(r['dst'] == inst.nick and r['src'] == victim and r.get('header') == 1
                               and r.get('outcome') == 'ok' and r.get('comm_type') == 'SupvisorsPublication'
                               and isinstance(r.get('body'), dict) and r['body'].get('group') == group
                               and r['body'].get('name') == name and r['body'].get('state') == 40
                               for r in reversed(sim.wire[-4000:])):
                        obs._probe('stopping_unknown_to_master_skipped')
                        continue
                    obs._probe('add_job_for_stopping_process')
                    obs.violate('strategy-on-stopping-process',
                                {'inst': inst.nick, 'process': process.namespec, 'strategy': strategy.name,
                                 'lost_instance': loss['inst']}, 'strategy-applied-to-process-that-was-stopping')
            before = real_snapshot(handler)
            if before != ref.snapshot():
                resync()
            orig_add(strategy, process)
            app = inst.supvisors.context.applications[process.application_name]
            sequenced = {p.namespec for p in app.get_start_sequenced_processes()}
            ref.add(strategy.name, process.application_name, process.namespec, sequenced)
            obs._probe('add_job')
            got, want = real_snapshot(handler), ref.snapshot()
            if got != want:
                obs.violate('handler-sets', {'inst': inst.nick, 'strategy': strategy.name, 'process': process.namespec,
                                             'real': [sorted(x) for x in got], 'model': [sorted(x) for x in want]},
                            'handler-sets-differ-from-model')
                resync()
            obs._check_exclusion(inst, handler)

        def abort():
            orig_abort()
            resync()

        def trigger_jobs():
            orig_trigger()
            resync()
        handler.add_job, handler.abort, handler.trigger_jobs = add_job, abort, trigger_jobs

    def _check_exclusion(self, inst, handler):
        stop_app, restart_app, restart_proc, cont = real_snapshot(handler)
        ctx = inst.supvisors.context
        bad = []
        if stop_app & restart_app:
            bad.append(('stop&restart', sorted(stop_app & restart_app)))
        for ns in restart_proc | cont:
            app = ns.split(':')[0]
            if app in stop_app:
                bad.append(('process-of-stopped-app', ns))
            if app in restart_app:
                sequenced = {p.namespec for p in ctx.applications[app].get_start_sequenced_processes()}
                if ns in sequenced:
                    bad.append(('sequenced-process-of-restarted-app', ns))
        if restart_proc & cont:
            bad.append(('restart&continue', sorted(restart_proc & cont)))
        if bad:
            self.violate('exclusion', {'inst': inst.nick, 'bad': bad}, 'handler-exclusion')

    # --- end to end ------------------------------------------------------------------------------
    def on_request(self, sim, inst, identifier, rtype, body):
        from supvisors.ttypes import RequestHeaders
        if rtype in (RequestHeaders.START_PROCESS, RequestHeaders.STOP_PROCESS):
            self.requests.append((sim.now_us, inst.nick, rtype.name, body[0], identifier))

    def on_publication(self, sim, inst, ptype, body):
        from supvisors.ttypes import PublicationHeaders
        if ptype == PublicationHeaders.STATE and body['fsm_statename'] == 'DISTRIBUTION':
            self.distributions.append(sim.now_us)
        elif ptype == PublicationHeaders.PROCESS and body.get('forced') \
                and 'No resource available' in str(body.get('spawnerr')):
            self.no_resource.append((sim.now_us, '%s:%s' % (body['group'], body['name'])))

    def on_end(self, sim, inst, why):
        """ An instance is lost (crash): record what was truly running only there. """
        if why != 'crash' or not self.end_to_end:
            return
        lost = {ns for ns, st in truth(inst).items() if st == 'RUNNING'}
        stopping = {ns for ns, st in truth(inst).items() if st == 'STOPPING'}
        elsewhere = set()
        for other in sim.instances.values():
            if other is not inst and other.alive and other.sd is not None:
                elsewhere |= {ns for ns, st in truth(other).items() if st in ('RUNNING', 'STARTING', 'BACKOFF')}
        # what every other instance BELIEVED running there (events still in flight at the crash never arrive)
        believed = {}
        for other in sim.instances.values():
            if other is not inst and other.alive and other.supvisors is not None:
                believed[other.nick] = {p.namespec for app in other.supvisors.context.applications.values()
                                        for p in app.processes.values() if inst.identifier in p.running_identifiers
                                        and p.info_map.get(inst.identifier, {}).get('statename') != 'STOPPING'}
        self.losses.append({'t_us': sim.now_us, 'inst': inst.nick, 'identifier': inst.identifier,
                            'only_there': sorted(lost - elsewhere), 'elsewhere': elsewhere,
                            'stopping_there': sorted(stopping - elsewhere), 'believed': believed, 'truly': lost})
        self._probe('loss')

    def on_child(self, sim, inst, child, what):
        if what == 'exit' and child.killed_by is None and child.sts not in (None, 0):
            self.crashes.append({'t_us': sim.now_us, 'inst': inst.nick, 'ns': child.namespec})

    def finish(self):
        sim = self.sim
        if sim.aborted == 'storm' and sim.storm:
            # the same start request repeated without bound: a repair applied over and over
            st = sim.storm
            cause = 'command-cannot-be-executed' if st.get('fault') == 20 else 'crash-loop'
            if cause == 'command-cannot-be-executed':
                self.violate('restart-storm', {'storm': st}, 'restart-storm:%s' % cause)
            else:
                self._probe('crash_loop_cut_short')
        if sim.aborted or not self.end_to_end:
            return
        from oracles.cluster import components, effective_options
        comps, clean, views = components(sim)
        if not clean or len(comps) != 1:
            return
        comp = comps[0]
        states = {n: views[n][0]['fsm_statename'] for n in comp}
        if set(states.values()) != {'OPERATION'}:
            self._probe('not_converged_skipped')
            return
        masters = {views[n][1] for n in comp}
        if len(masters) != 1:
            return
        m = sim.inst_by_identifier(next(iter(masters)))
        if m is None or not m.alive:
            return
        quiet_s = (sim.now_us - self.run.t_faults_end_us) / US
        if quiet_s < 120:
            return
        ctx = m.supvisors.context
        truly = {}
        for i in sim.instances.values():
            if i.alive and i.sd is not None:
                for ns, st in truth(i).items():
                    if st in ('RUNNING', 'STARTING', 'BACKOFF'):
                        truly.setdefault(ns, set()).add(i.identifier)
        with frozen(sim, m):
            shown = {'%s:%s' % (p['application_name'], p['process_name']): p for p in m.rpcif.get_all_process_info()}
        # only one loss episode per run is judged, and only if no other disturbance touched the same application
        if len(self.losses) != 1:
            self._probe('losses_%d_skipped' % min(len(self.losses), 3))
            return
        loss = self.losses[0]
        if self.crashes:
            self._probe('process_crash_in_run_skipped')
            return
        # a new DISTRIBUTION after the loss (Master lost, late joiner) legitimately repairs the applications in failure:
        # the effect of the running failure strategy alone is no longer observable
        if any(t >= loss['t_us'] for t in self.distributions):
            self._probe('redistribution_after_loss_skipped')
            return
        by_app = {}
        for ns in loss['only_there']:
            app = ctx.applications.get(ns.split(':')[0])
            if app is None or not app.rules.managed:
                continue
            proc = app.processes.get(ns.split(':')[1])
            if proc is None:
                continue
            by_app.setdefault(app.application_name, []).append((ns, proc.rules.running_failure_strategy.name,
                                                                proc in app.get_start_sequenced_processes()))
        operated = {str(rec['args'][-2]) for rec in sim.oplog
                    if rec['method'].startswith('supvisors.') and len(rec.get('args', [])) >= 2}
        for app_name, items in by_app.items():
            app = ctx.applications[app_name]
            lagging = {ns for ns in loss.get('believed', {}).get(m.nick, ()) if ns.split(':')[0] == app_name
                       and ns not in loss.get('truly', ())}
            if lagging:
                # the Master still believed a process running there that had just stopped (its last events died with the
                # instance): it applies that process's strategy too, in good faith
                self._probe('master_view_lagged_at_loss_skipped')
                continue
            if app_name in operated:
                # the user started / stopped this very application around the loss: the strategy alone is not observable
                self._probe('application_operated_skipped')
                continue
            # governing strategy with precedence and promotion
            governing = max((s for _ns, s, _q in items), key=lambda s: PRECEDENCE.get(s, -1))
            if governing not in PRECEDENCE:
                continue   # SHUTDOWN / RESTART: judged by C09
            left_running = any(ns.split(':')[0] == app_name for ns in loss['elsewhere'])
            promoted = governing == 'RESTART_PROCESS' and not left_running and any(q for _n, s, q in items
                                                                                   if s == 'RESTART_PROCESS')
            if promoted:
                governing = 'RESTART_APPLICATION'
            after = [r for r in self.requests if r[0] >= loss['t_us'] and r[3].split(':')[0] == app_name]
            starts = [r for r in after if r[2] == 'START_PROCESS']
            stops = [r for r in after if r[2] == 'STOP_PROCESS']
            detail = {'application': app_name, 'lost_instance': loss['inst'], 'lost': items, 'governing': governing,
                      'starts': [(r[1], r[3], r[4]) for r in starts], 'stops': [(r[1], r[3], r[4]) for r in stops]}
            self._probe('loss_judged_%s' % governing)
            # recorded finding: a command that cannot be executed + RESTART_APPLICATION = endless restart loop
            if any(r['method'] == 'supvisors.start_args' and r.get('fault') == 20
                   and str(r.get('args', [''])[0]).split(':')[0] == app_name for r in sim.wire):
                if len(starts) > 3:
                    self.violate('restart-storm', dict(detail, starts=len(starts)),
                                 'restart-storm:command-cannot-be-executed')
                continue
            # once: no process is requested to start twice by the repair
            seen = {}
            for r in starts:
                seen[r[3]] = seen.get(r[3], 0) + 1
            twice = {ns: n for ns, n in seen.items() if n > 1}
            if twice:
                self.violate('repaired-twice', dict(detail, twice=twice), 'repaired-twice')
            if governing == 'STOP_APPLICATION':
                running = sorted(ns for ns in truly if ns.split(':')[0] == app_name)
                if running or starts:
                    self.violate('stop-application', dict(detail, still_running=running), 'stop-application-not-applied')
            elif governing == 'CONTINUE':
                if starts or stops:
                    self.violate('continue', detail, 'continue-strategy-acted')
            elif governing == 'RESTART_PROCESS':
                if any(t >= loss['t_us'] and n.split(':')[0] == app_name for t, n in self.no_resource):
                    # a restart could not be placed: the starting failure strategy (ABORT / STOP) then governs the rest
                    self._probe('restart_process_with_no_resource_skipped')
                    continue
                for ns, strategy, _q in items:
                    if strategy != 'RESTART_PROCESS':
                        continue
                    where = truly.get(ns, set())
                    info = shown.get(ns)
                    if len(where) > 1:
                        self.violate('restart-process', dict(detail, process=ns, running_on=sorted(where)),
                                     'restart-process-several-copies')
                    elif not where:
                        # attempted, or dropped by the starting failure strategy (ABORT / STOP) after another process of
                        # the application could not be placed
                        attempted = any(r[3] == ns for r in starts) or \
                            any(t >= loss['t_us'] and n.split(':')[0] == app_name for t, n in self.no_resource)
                        if not attempted or not (info and info['statename'] == 'FATAL'):
                            self.violate('restart-process', dict(detail, process=ns, attempted=attempted,
                                                                 shown=info and info['statename']),
                                         'restart-process-not-applied')
            elif governing == 'RESTART_APPLICATION':
                # the sequenced processes are started again (or FATAL when nothing is possible)
                if any(i['statename'] == 'FATAL' for ns, i in shown.items() if ns.split(':')[0] == app_name):
                    self._probe('restart_application_with_failure_skipped')
                    continue
                for p in app.get_start_sequenced_processes():
                    ns = p.namespec
                    info = shown.get(ns)
                    if not truly.get(ns) and not (info and info['statename'] in ('FATAL', 'EXITED')):
                        self.violate('restart-application', dict(detail, process=ns, shown=info and info['statename']),
                                     'restart-application-not-applied')
                        break
