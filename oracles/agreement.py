"""C12: at quiescence all instances agree on where processes run, and that view is true."""
from supvsim.scenario import Observer, frozen
from supvsim.kernel import US

RUNNING_STATES = ('STARTING', 'BACKOFF', 'RUNNING')


def process_views(sim, inst):
    """ {namespec: (statename, frozenset(identifiers), forced)} as get_all_process_info shows it. """
    with frozen(sim, inst):
        try:
            infos = inst.rpcif.get_all_process_info()
        except Exception:  # noqa: refused before DISTRIBUTION: same serialisers read directly
            ctx = inst.supvisors.context
            infos = [p.serial() for app in ctx.applications.values() for p in app.processes.values()]
    out = {'%s:%s' % (i['application_name'], i['process_name']): (i['statename'], frozenset(i['identifiers']))
           for i in infos}
    # a state forced by Supvisors overrides the display until the next event (C11): exempted from the state comparison
    forced = set()
    for app in inst.supvisors.context.applications.values():
        for p in app.processes.values():
            if p.forced_state is not None:
                forced.add(p.namespec)
    return out, forced


def truth(inst):
    """ {namespec: state name} from the real Supervisor Subprocess objects. """
    from supervisor.states import getProcessStateDescription
    out = {}
    for gname, group in inst.sd.process_groups.items():
        for pname, proc in group.processes.items():
            out['%s:%s' % (gname, pname)] = getProcessStateDescription(proc.get_state())
    return out


class Agreement(Observer):
    prop = 'C12'

    def __init__(self, period=1.0, hold=0.0):
        super().__init__()
        self.probes = {}
        self.period = period
        self.last_mismatch = {}
        self.prev_states = {}
        self.shaken = {}
        self.latest = {}
        self.delivered = {}
        self.all_info = {}
        self.sent_view = {}
        self.local_state = {}
        self.failed_pub = {}
        self.self_down = {}
        self.self_down_reported = set()

    def _probe(self, name):
        self.probes[name] = self.probes.get(name, 0) + 1

    def attach(self, run):
        super().attach(run)
        run.sim.at(5.0, self._tick)

    def after_event(self, sim, inst, kind):
        # which incarnation of each peer the observer has hand-shaken with
        if not inst.alive or inst.supvisors is None:
            return
        okey = (inst.nick, inst.incarnation)
        prev = self.prev_states.setdefault(okey, {})
        for ident, st in inst.supvisors.context.instances.items():
            name = st.state.name
            if name != prev.get(ident):
                prev[ident] = name
                if name == 'CHECKING':
                    p = sim.inst_by_identifier(ident)
                    self.shaken[(okey, ident)] = p.incarnation if p is not None else None

    def on_publication(self, sim, inst, ptype, body):
        from supvisors.ttypes import PublicationHeaders
        if ptype == PublicationHeaders.PROCESS and 'forced' not in body:
            ns = '%s:%s' % (body['group'], body['name'])
            self.latest[(inst.identifier, ns)] = (body['now_monotonic'], inst.incarnation)
            # the local event has just been handled (or rejected) by the local Supvisors itself
            self.local_state[(inst.identifier, ns)] = (body['now_monotonic'],
                                                       inst.supvisors.context.local_status.state.name)

    def on_proxy_publish(self, sim, inst, proxy, message):
        # the sender's view of the target when its proxy handles a PROCESS publication
        if message[0] == 1 and 'forced' not in message[1]:
            body = message[1]
            ns = '%s:%s' % (body['group'], body['name'])
            self.sent_view[(inst.identifier, proxy.target_identifier, ns, body['now_monotonic'])] = \
                proxy.status.state.name

    def on_wire(self, sim, rec):
        if rec['method'] == 'supervisor.sendRemoteCommEvent' and rec['outcome'] != 'ok' and rec.get('header') == 1 \
                and rec.get('comm_type') == 'SupvisorsPublication' and isinstance(rec.get('body'), dict):
            body = rec['body']
            d = sim.instances.get(rec['dst'])
            if d is not None and 'forced' not in body:
                ns = '%s:%s' % (body['group'], body['name'])
                self.failed_pub[(rec.get('origin'), d.identifier, ns, body['now_monotonic'])] = rec['outcome']
        if rec['method'] != 'supervisor.sendRemoteCommEvent' or rec['outcome'] != 'ok' or rec['dst'] is None:
            return
        o = sim.instances.get(rec['dst'])
        if o is None or not o.alive or o.supvisors is None:
            return
        body = rec.get('body')
        okey = (o.nick, o.incarnation)
        if rec.get('comm_type') == 'SupvisorsPublication' and rec.get('header') == 1 and isinstance(body, dict) \
                and 'forced' not in body:
            origin = rec.get('origin')
            st = o.supvisors.context.instances.get(origin)
            ns = '%s:%s' % (body['group'], body['name'])
            self.delivered[(okey, origin, ns)] = (body['now_monotonic'], st.state.name if st else None, sim.now_us)
        elif rec.get('comm_type') == 'SupvisorsNotification' and rec.get('header') == 3:
            self.all_info[(okey, rec.get('origin'))] = sim.now_us

    def classify(self, o, ident, ns):
        """ Observable mechanism behind a stale entry of observer o about instance ident (known-finding signatures). """
        okey = (o.nick, o.incarnation)
        latest = self.latest.get((ident, ns))
        p = self.sim.inst_by_identifier(ident)
        if latest is None or p is None or latest[1] != p.incarnation:
            return None
        if ident == o.identifier:
            loc = self.local_state.get((ident, ns))
            if loc is not None and loc[0] == latest[0] and loc[1] not in ('CHECKED', 'RUNNING'):
                return 'latest-process-event-rejected-before-admission'
            return None
        got = self.delivered.get((okey, ident, ns))
        if got is None or got[0] != latest[0]:
            key = (ident, o.identifier, ns, latest[0])
            if key in self.failed_pub:
                return 'process-event-publication-failed-never-repaired'
            view = self.sent_view.get(key)
            if view in ('STOPPED', 'ISOLATED'):
                return 'process-event-not-published-to-peer-seen-%s-by-sender' % view
            return None
        if got[1] not in ('CHECKED', 'RUNNING'):
            return 'latest-process-event-rejected-before-admission'
        snap = self.all_info.get((okey, ident))
        if snap is not None and snap > got[2]:
            return 'handshake-snapshot-overwrote-newer-process-event'
        return None

    def _tick(self):
        sim = self.sim
        if sim.aborted:
            return
        if sim.now < self.run.t_end:
            sim.after(self.period, self._tick)
        if not sim.quiescent():
            self._probe('not_quiescent')
            return
        live = [i for i in sim.instances.values() if i.alive and i.supvisors is not None]
        # "every instance": an instance that never completes the hand-shake with its own Supervisor (it does not see
        # itself RUNNING) reports nothing at all, whatever the others run. Judged when it lasts, without any fault around
        for o in live:
            own = o.supvisors.context.instances.get(o.identifier)
            key = (o.nick, o.incarnation)
            if own is None or own.state.name == 'RUNNING' or o.sd is None or o.sd.stopping:
                self.self_down.pop(key, None)
                continue
            since = self.self_down.setdefault(key, sim.now_us)
            if sim.now_us - since > 90 * 10**6 and key not in self.self_down_reported:
                self.self_down_reported.add(key)
                if any(fired and t >= since - 60 * 10**6 and item['kind'] not in ('boot', 'rpc', 'probe')
                       for t, item, fired in self.run.applied):
                    self._probe('own_hand_shake_pending_after_fault_skipped')
                    continue
                self.violate('never-admitted', {'observer': o.nick, 'own_state': own.state.name,
                                                'since': since / 1e6,
                                                'local_programs': len(truth(o))},
                             'own-hand-shake-never-completes')
        # no hand-shake in progress and every instance seen RUNNING is alive (so that "actually report" is defined)
        views = {}
        for o in live:
            states = {ident: st.state.name for ident, st in o.supvisors.context.instances.items()}
            if any(s in ('CHECKING', 'CHECKED', 'FAILED') for s in states.values()):
                self._probe('handshake_in_progress')
                return
            for ident, s in states.items():
                if s == 'RUNNING':
                    p = sim.inst_by_identifier(ident)
                    if p is None or not p.alive or p.sd.stopping:
                        self._probe('undetected_loss')
                        return
                    if self.shaken.get(((o.nick, o.incarnation), ident)) != p.incarnation:
                        self._probe('undetected_restart')
                        return
            views[o.nick] = states
        # mutual admission: whoever O sees RUNNING sees O RUNNING too (else one side is about to declare the other lost)
        for o in live:
            for ident, st in views[o.nick].items():
                if st == 'RUNNING' and ident != o.identifier:
                    p = sim.inst_by_identifier(ident)
                    if views.get(p.nick, {}).get(o.identifier) != 'RUNNING':
                        self._probe('asymmetric_view')
                        return
        self._probe('quiescent_instant')
        truths = {i.identifier: truth(i) for i in live}
        pviews, forced = {}, {}
        for o in live:
            pviews[o.nick], forced[o.nick] = process_views(sim, o)
        for o in live:
            seen_running = [ident for ident, s in views[o.nick].items() if s == 'RUNNING']
            if o.identifier not in seen_running:
                continue
            namespecs = set(pviews[o.nick])
            for ident in seen_running:
                namespecs |= set(truths[ident])
            for ns in sorted(namespecs):
                must, may = set(), set()
                for ident in seen_running:
                    st = truths[ident].get(ns)
                    if st in RUNNING_STATES:
                        must.add(ident)
                    elif st == 'STOPPING':
                        may.add(ident)
                shown = pviews[o.nick].get(ns)
                if shown is None:
                    if must:
                        self.violate('unknown-process', {'observer': o.nick, 'process': ns, 'running_on': sorted(must)},
                                     'unknown-process')
                    continue
                statename, idents = shown
                self._probe('process_compared')
                if not (must <= idents <= must | may):
                    wrong = sorted((must - idents) | (idents - must - may))
                    causes = {self.classify(o, ident, ns) for ident in wrong}
                    sig = 'wrong-location'
                    if causes and None not in causes:
                        # every wrong entry is explained by a classified mechanism: reported under the first one (several
                        # entries of one process may be stale for different recorded reasons)
                        sig = 'stale:' + sorted(causes)[0]
                    self.violate('wrong-location', {'observer': o.nick, 'process': ns, 'shown': sorted(idents),
                                                    'truth_running': sorted(must), 'truth_stopping': sorted(may),
                                                    'shown_state': statename, 'causes': sorted(map(str, causes)),
                                                    'truth': {i: truths[i].get(ns) for i in seen_running}}, sig)
                    continue
                if ns in forced[o.nick]:
                    self._probe('forced_state_exempted')
                    continue
                running_shown = statename in RUNNING_STATES or statename == 'STOPPING'
                if bool(idents) != running_shown and not (not idents and statename == 'STOPPING' and may):
                    sig = 'running-ness'
                    detail = {'observer': o.nick, 'process': ns, 'shown_state': statename, 'identifiers': sorted(idents)}
                    if not idents and statename == 'STOPPING':
                        # which per-instance entry says STOPPING?
                        proc = None
                        app = o.supvisors.context.applications.get(ns.split(':')[0])
                        if app is not None:
                            proc = app.processes.get(ns.split(':')[1])
                        entries = sorted(i for i, info in (proc.info_map.items() if proc else ())
                                         if info['statename'] == 'STOPPING')
                        detail['stopping_entries'] = entries
                        causes = set()
                        for ident in entries:
                            if ident in seen_running:
                                causes.add(self.classify(o, ident, ns))
                            else:
                                causes.add('stopping-entry-of-instance-not-running')
                        if causes and None not in causes:
                            sig = 'stale:' + sorted(causes)[0]
                    self.violate('running-ness', detail, sig)
                elif len(idents) == 1 and not may:
                    ident = next(iter(idents))
                    t = truths[ident].get(ns)
                    if statename != t:
                        cause = self.classify(o, ident, ns)
                        self.violate('wrong-state', {'observer': o.nick, 'process': ns, 'shown_state': statename,
                                                     'truth': t, 'cause': cause},
                                     'stale:' + cause if cause else 'wrong-state')
