"""C03 (start sequences), C04 (eligibility and load cap), C14 (placement strategy): checked on every start request,
at the instant the requester pushes it, from the requester's own XML-RPC view + the target's real Supervisor."""
from supvsim.scenario import Observer, frozen, Violation
from supvsim.kernel import US

RUNNING_STATES = ('STARTING', 'BACKOFF', 'RUNNING')
STOPPED_STATES = ('STOPPED', 'EXITED', 'FATAL', 'UNKNOWN')


class StartRequests(Observer):
    prop = 'C04'   # default; each violation carries its own property

    def __init__(self, app_plans_only=False):
        super().__init__()
        self.probes = {}
        self.app_plans_only = app_plans_only    # C03 profile: every start request belongs to an application plan
        self.requests = []          # dicts
        self.events_seen = {}       # (S nick, inc, ns) -> t_us of last process event (any origin) handled by S
        self.aborted = {}           # (S nick, inc, app) -> (t_us, level)
        self.ops = {}               # (S nick, app) -> (t_us, method, args)
        self.distribution_entry = {}  # (S nick, inc) -> t_us
        self.single_targets = {}    # (S nick, inc, app, plan start) -> set of targets
        self.rules_cache = {}
        self.recent_local = {}
        self.abort_entry = {}
        self.handler_plans = {}
        self.stops = {}
        self.history = {}
        self.running_seen = {}
        self.lost_since = {}
        self.inst_states = {}
        self.prev_ops = {}
        self.single_plan_view = {}
        self.first_known = {}
        self.single_plan_base = {}
        self.disability_t = {}   # (nick, program) -> t_us of the last accepted enable / disable
        self.stop_judged = set()
        self.distribution_first = {}
        self.last_fsm = {}
        self.disab_delivery = {}  # (receiver, inc, sender identifier, ns) -> (t_us, receiver's view of sender, disabled)

    def _probe(self, name):
        self.probes[name] = self.probes.get(name, 0) + 1

    def v(self, prop, clause, detail, signature=None):
        if len(self.violations) < 30:
            self.violations.append(Violation(prop, clause, detail, self.sim.now_us, signature or clause))

    def on_boot(self, sim, inst):
        """ Plans created by the running failure handler use the strategy of the rules, whatever the user asked before:
        record when the handler releases a restart job (tap on an instance attribute, no source change). """
        handler = inst.supvisors.failure_handler
        orig = handler.trigger_jobs
        obs = self

        def trigger_jobs():
            before = {a.application_name for a in handler.restart_application_jobs} | \
                     {p.application_name for p in handler.restart_process_jobs}
            # the requests are pushed synchronously inside the call: the record must exist before
            for app in before:
                obs.handler_plans[(inst.nick, inst.incarnation, app)] = sim.now_us
            return orig()
        handler.trigger_jobs = trigger_jobs

    # --- feeds ----------------------------------------------------------------------------------
    def _hist(self, nick, inc, ns, state, expected=True):
        h = self.history.setdefault((nick, inc, ns), [])
        h.append((self.sim.now_us, state, expected))
        if len(h) > 40:
            del h[:10]

    def was_running_at(self, s, ns, t_us):
        last = None
        for t, state, expected in self.history.get((s.nick, s.incarnation, ns), ()):
            if t > t_us:
                break
            last = (state, expected)
        return last is not None and (last[0] == 20 or (last[0] == 100 and last[1]))

    def on_wire(self, sim, rec):
        if rec['via'] == 'client' and rec['method'] in ('supvisors.start_application', 'supvisors.restart_application') \
                and rec.get('outcome') != 'ok' and len(rec.get('args') or ()) >= 2:
            # a rejected operation has no effect: forget it right after its handler, before anything else the instance
            # does in the same wake-up (its own plans use the strategy of the rules)
            try:
                key = (rec['dst'], rec['args'][1])
                if key in self.ops and abs(self.ops[key][0] - sim.now_us) < 1000:
                    prev = self.prev_ops.get(key)
                    if prev is None:
                        del self.ops[key]
                    else:
                        self.ops[key] = prev
            except TypeError:
                pass
        if rec['method'] in ('supvisors.disable', 'supvisors.enable') and rec['via'] == 'client' \
                and rec.get('outcome') == 'ok' and rec.get('args'):
            self.disability_t[(rec['dst'], str(rec['args'][0]))] = sim.now_us
        if rec['method'] == 'supervisor.sendRemoteCommEvent' and rec['outcome'] == 'ok' and rec.get('header') == 4 \
                and rec.get('comm_type') == 'SupvisorsPublication' and isinstance(rec.get('body'), dict) \
                and rec['src'] != rec['dst']:
            # a PROCESS_DISABILITY publication delivered: how did the receiver see the sender at that instant?
            d, src = sim.instances.get(rec['dst']), sim.instances.get(rec['src'])
            if d is not None and src is not None and d.alive and d.supvisors is not None:
                st = d.supvisors.context.instances.get(src.identifier)
                b = rec['body']
                self.disab_delivery[(d.nick, d.incarnation, src.identifier, '%s:%s' % (b.get('group'), b.get('name')))] = \
                    (sim.now_us, st.state.name if st else None, bool(b.get('disabled')))
        if rec['method'] == 'supervisor.sendRemoteCommEvent' and rec['outcome'] == 'ok' and rec.get('header') == 3 \
                and rec.get('comm_type') == 'SupvisorsNotification' and isinstance(rec.get('body'), list):
            d = sim.instances.get(rec['dst'])
            if d is not None:
                for info in rec['body']:
                    if info.get('state') == 20:
                        self._hist(d.nick, d.incarnation, '%s:%s' % (info['group'], info['name']), 20)
        # process events handled by a requester (used to know when a pending request is no longer pending)
        if rec['method'] == 'supervisor.sendRemoteCommEvent' and rec['outcome'] == 'ok' and rec.get('header') == 1 \
                and rec.get('comm_type') == 'SupvisorsPublication' and isinstance(rec.get('body'), dict):
            d = sim.instances.get(rec['dst'])
            if d is not None:
                b = rec['body']
                self.events_seen[(d.nick, d.incarnation, '%s:%s' % (b['group'], b['name']))] = sim.now_us
                self._hist(d.nick, d.incarnation, '%s:%s' % (b['group'], b['name']), b.get('state'), b.get('expected'))
                if b.get('state') == 20 or (b.get('state') == 100 and b.get('expected')):
                    self.running_seen[(d.nick, d.incarnation, '%s:%s' % (b['group'], b['name']))] = sim.now_us

    def on_publication(self, sim, inst, ptype, body):
        from supvisors.ttypes import PublicationHeaders
        if ptype == PublicationHeaders.PROCESS:
            ns = '%s:%s' % (body['group'], body['name'])
            self.events_seen[(inst.nick, inst.incarnation, ns)] = sim.now_us
            self._hist(inst.nick, inst.incarnation, ns, body.get('state'), body.get('expected'))
            if body.get('state') == 20 or (body.get('state') == 100 and body.get('expected')):
                self.running_seen[(inst.nick, inst.incarnation, ns)] = sim.now_us
            if body.get('forced') and 'No resource available' in str(body.get('spawnerr')):
                self._check_no_resource(sim, inst, ns)
            if body.get('state') == 200:   # FATAL (forced or local): starting failure bookkeeping
                self._note_failure(sim, inst, ns)
        elif ptype == PublicationHeaders.STATE and body['fsm_statename'] == 'DISTRIBUTION':
            self.distribution_entry[(inst.nick, inst.incarnation)] = sim.now_us
            if self.last_fsm.get((inst.nick, inst.incarnation)) != 'DISTRIBUTION':
                self.distribution_first[(inst.nick, inst.incarnation)] = sim.now_us   # entry (not a re-publication)
        if ptype == PublicationHeaders.STATE:
            self.last_fsm[(inst.nick, inst.incarnation)] = body['fsm_statename']
        elif ptype == PublicationHeaders.STATE and body['fsm_statename'] in ('ELECTION', 'SYNCHRONIZATION'):
            self.abort_entry[(inst.nick, inst.incarnation)] = sim.now_us

    def before_operation(self, item, fired):
        if fired and item['kind'] == 'rpc' and item['method'].startswith('supvisors.'):
            name = item['method'].split('.')[1]
            args = item.get('args', [])
            if args and args[0] in ('LOCAL', 3) and name.startswith(('start_', 'restart_')):
                self.recent_local[item['inst']] = self.sim.now_us
            if name in ('start_application', 'restart_application') and len(args) >= 2:
                key = (item['inst'], args[1])
                self.prev_ops[key] = self.ops.get(key)
                self.ops[key] = (self.sim.now_us, name, args)
            elif name == 'restart_sequence':
                self.distribution_entry[(item['inst'], self.sim.instances[item['inst']].incarnation)] = self.sim.now_us
                self.distribution_first[(item['inst'], self.sim.instances[item['inst']].incarnation)] = self.sim.now_us

    def on_plan_item(self, item, fired):
        # an operation that was rejected has no effect: forget it
        if item['kind'] == 'rpc' and self.sim.oplog:
            rec = self.sim.oplog[-1]
            if rec.get('plan_item') is item or rec['method'] == item['method']:
                if 'fault' in rec or 'oserror' in rec or 'http500' in rec:
                    args = item.get('args', [])
                    if len(args) >= 2:
                        key = (item['inst'], args[1])
                        if key in self.ops and abs(self.ops[key][0] - rec['t_us']) < 1000:
                            prev = self.prev_ops.get(key)
                            if prev is None:
                                del self.ops[key]
                            else:
                                self.ops[key] = prev

    # --- view helpers ---------------------------------------------------------------------------
    def _rules(self, sim, s, ns):
        key = (s.nick, s.incarnation, ns)
        with frozen(sim, s):
            try:
                prules = s.rpcif.get_process_rules(ns)[0]
            except Exception:  # noqa
                prules = None
            try:
                arules = s.rpcif.get_application_rules(ns.split(':')[0])
            except Exception:  # noqa
                arules = None
        if prules is None or arules is None:
            # status calls are refused before DISTRIBUTION: read the same serialisers
            ctx = s.supvisors.context
            app = ctx.applications[ns.split(':')[0]]
            proc = app.processes[ns.split(':')[1]]
            prules = proc.rules.serial()
            arules = dict(app.rules.serial(), application_name=app.application_name)
        # the sequencing fields are taken from the GENERATED rules document, not from what Supvisors made of it
        from oracles.stops import _rule_of
        app_doc, prog_doc = _rule_of(sim.config, ns)
        prules, arules = dict(prules), dict(arules)
        if arules.get('managed') and app_doc is not None:
            arules['start_sequence'] = app_doc.get('start_sequence') or 0
            if prog_doc is not None:
                prules['start_sequence'] = prog_doc.get('start_sequence') or 0
                prules['required'] = bool(prog_doc.get('required', False))
                prules['wait_exit'] = bool(prog_doc.get('wait_exit', False))
                prules['expected_loading'] = prog_doc.get('expected_loading', 0)
            else:
                prules['start_sequence'] = 0
        return prules, arules

    def _view(self, sim, s):
        """ (instance states, {ns: (statename, identifiers)}, {ns: load}) as S reports them. """
        ctx = s.supvisors.context
        states = {ident: st.state.name for ident, st in ctx.instances.items()}
        procs, loads, seqs, required = {}, {}, {}, {}
        for app in ctx.applications.values():
            for p in app.processes.values():
                d = p.serial()
                procs[p.namespec] = (d['statename'], set(d['identifiers']), p.state_string())
                r = p.rules.serial()
                loads[p.namespec] = r['expected_loading']
                seqs[p.namespec] = r['start_sequence']
                required[p.namespec] = r['required']
                # loads, sequences and required flags as written in the GENERATED rules document
                if app.rules.managed:
                    from oracles.stops import _rule_of
                    _a, prog_doc = _rule_of(sim.config, p.namespec)
                    loads[p.namespec] = (prog_doc or {}).get('expected_loading', 0)
                    seqs[p.namespec] = (prog_doc or {}).get('start_sequence') or 0
                    required[p.namespec] = bool((prog_doc or {}).get('required', False))
        return states, procs, loads, seqs, required

    def _node_of(self, ident):
        sim = self.sim
        nick = sim.by_identifier.get(ident)
        spec = next(s for s in sim.config['instances'] if s['nick'] == nick)
        return spec['node']

    def _pending(self, s, now_us, liberal=False):
        """ Requests of S still pending. Conservative (default): sent < 5 s ago, no event seen since, process still
        stopped in S's view. Liberal: every request whose process is still stopped in S's view (sent < 120 s ago). """
        out = []
        for r in self.requests:
            if r['s'] != s.nick or r['inc'] != s.incarnation:
                continue
            age = now_us - r['t_us']
            seen = self.events_seen.get((s.nick, s.incarnation, r['ns']), -1)
            if liberal:
                if age < 120 * US:
                    out.append(r)
            elif age < 5 * US and seen < r['t_us']:
                out.append(r)
        return out

    # --- the request ----------------------------------------------------------------------------
    def on_request(self, sim, s, identifier, rtype, body):
        from supvisors.ttypes import RequestHeaders
        if rtype == RequestHeaders.STOP_PROCESS:
            self.stops[(s.nick, s.incarnation, body[0].split(':')[0])] = sim.now_us
        if rtype != RequestHeaders.START_PROCESS:
            return
        ns, extra = body
        with frozen(sim, s):
            states, procs, loads, seqs, required = self._view(sim, s)
        prules, arules = self._rules(sim, s, ns)
        app = ns.split(':')[0]
        t = sim.inst_by_identifier(identifier)
        now = sim.now_us
        self._probe('start_request')
        detail = {'requester': s.nick, 'target': identifier, 'process': ns}
        # ---- C04: eligibility
        if states.get(identifier) != 'RUNNING':
            sig = 'target-not-running'
            arules0 = arules if arules.get('managed') else {}
            if states.get(identifier) == 'FAILED' and arules0.get('distribution', 'ALL_INSTANCES') != 'ALL_INSTANCES':
                # recorded finding: the commands of a non-distributed application hold the instance chosen at plan time;
                # they lose it when the instance is invalidated (next tick), not when it is declared FAILED (at once, on
                # an XML-RPC failure): a request triggered in between still goes to the FAILED instance
                sig = 'target-not-running:non-distributed-target-FAILED-not-yet-invalidated'
            self.v('C04', 'target-not-running', dict(detail, seen=states.get(identifier)), sig)
        proc = s.supvisors.context.applications[app].processes[ns.split(':')[1]]
        info = proc.info_map.get(identifier)
        if info is None:
            self.v('C04', 'target-does-not-know-program', detail, 'target-does-not-know-program')
        elif info.get('disabled'):
            self.v('C04', 'target-has-program-disabled', detail, 'target-has-program-disabled')
        # ... and what the target's own Supervisor says (the view of the requester may only lag by the time a
        # publication needs to travel: a disability older than 20 s must be known)
        if t is not None and t.alive and t.supvisors is not None and info is not None and not info.get('disabled'):
            from supervisor.xmlrpc import RPCError
            with frozen(sim, t):
                try:
                    tinfo = t.rpcif.get_local_process_info(ns)
                except RPCError:
                    tinfo = None
            if tinfo is None:
                self.v('C04', 'target-does-not-know-program', dict(detail, source='target'),
                       'target-does-not-know-program:truth')
            elif tinfo.get('disabled'):
                t_d = self.disability_t.get((t.nick, tinfo.get('program_name')))
                self._probe('truly_disabled_target_seen')
                if t_d is None or now - t_d > 20 * US:
                    # recorded finding (C12 hand-shake gap, here for disability events): the event was not published to a
                    # peer the sender saw STOPPED, or reached the requester before it had admitted the sender, and nothing
                    # repairs it afterwards. An event delivered while the sender was CHECKED / RUNNING must be known.
                    dl = self.disab_delivery.get((s.nick, s.incarnation, identifier, ns))
                    sig = 'target-has-program-disabled:truth'
                    if dl is None or not dl[2] or dl[1] not in ('CHECKED', 'RUNNING') or (t_d is not None and dl[0] < t_d):
                        sig += ':disability-event-lost-in-hand-shake-gap'
                    self.v('C04', 'target-has-program-disabled',
                           dict(detail, source='target', disabled_since=None if t_d is None else t_d / US,
                                delivery=dl), sig)
        distribution = arules.get('distribution', 'ALL_INSTANCES') if arules.get('managed') else 'ALL_INSTANCES'
        rule_ids = prules['identifiers'] if distribution == 'ALL_INSTANCES' else arules.get('identifiers', ['*'])
        if '*' not in rule_ids:
            allowed = set(s.supvisors.mapper.filter(list(rule_ids)))
            if identifier not in allowed:
                self.v('C04', 'target-not-permitted', dict(detail, rule=list(rule_ids), distribution=distribution),
                       'target-not-permitted')
        shown = procs.get(ns)
        if shown and shown[2] in RUNNING_STATES + ('STOPPING',):
            self.v('C04', 'already-running', dict(detail, state=shown[2], identifiers=sorted(shown[1])),
                   'already-running')
        pend = self._pending(s, now)
        dup = [r for r in pend if r['ns'] == ns]
        # a request whose target S has declared lost since is given up (host lost): asking elsewhere is the repair
        if dup and all(self.lost_since.get((s.nick, s.incarnation, r['target']), -1) >= r['t_us'] for r in dup):
            self._probe('request_repeated_after_target_lost')
            dup = []
        if dup:
            # recorded finding: entering ELECTION / SYNCHRONIZATION aborts the jobs but not the request in flight; a
            # new plan (crash handled while the instance declares itself Master) then asks again
            t_abort = self.abort_entry.get((s.nick, s.incarnation), -1)
            sig = 'duplicate-request'
            if dup[0]['t_us'] < t_abort <= now:
                sig = 'duplicate-request:first-request-in-flight-forgotten-by-job-abort'
            self.v('C04', 'duplicate-request', dict(detail, first_target=dup[0]['target']), sig)
        # load cap on the target node
        node = self._node_of(identifier)
        running_load = 0
        for q, (_st, idents, real) in procs.items():
            if real not in RUNNING_STATES:
                continue  # a STOPPING process stays listed but is no longer counted in the load
            for i in idents:
                if i in states and self._node_of(i) == node:
                    running_load += loads[q]
        # (a local event is handled - and may trigger this very request - before it is published: a request whose process
        # already shows as running on its target is counted once, as running)
        pend_load = sum(loads.get(r['ns'], 0) for r in pend if self._node_of(r['target']) == node
                        and not (r['ns'] in procs and procs[r['ns']][2] in RUNNING_STATES
                                 and r['target'] in procs[r['ns']][1]))
        total = running_load + pend_load + loads.get(ns, 0)
        if distribution != 'ALL_INSTANCES':
            # the whole application was checked against the node at plan time, and its commands hold their instance
            # since: what other plans brought to the node meanwhile is not this plan's (known concurrent-applications
            # mechanism). Judged on what was already running there when the plan made its first request and still is,
            # plus the application's own running and requested processes
            total = 0
            self._check_single_plan_load(s, ns, app, identifier, states, procs, loads, pend, detail, distribution)
        if total > 100:
            # specific history of the recorded finding: ApplicationStartJobs only accounts for the requests of its own
            # application, so applications started concurrently by one instance ignore each other's requested loads
            recent = [r for r in self._pending(s, now, liberal=True) if self._node_of(r['target']) == node]
            other_app = any(r['ns'].split(':')[0] != app for r in recent)
            sig = 'node-overload'
            if other_app:
                sig = 'node-overload:concurrent-applications-ignore-each-other'
            elif pend_load and running_load + loads.get(ns, 0) <= 100:
                sig = 'node-overload:pending-requests-ignored'
            running = {q: sorted(idents) for q, (_st, idents, _r) in procs.items() if idents}
            self.v('C04', 'node-overload', dict(detail, node=node, running_load=running_load, pending_load=pend_load,
                                                load=loads.get(ns, 0), pending=[(r['ns'], r['target']) for r in pend],
                                                distribution=distribution, running=running, loads=loads,
                                                my_requests=[(r['ns'], r['target'], round((now - r['t_us']) / US, 1))
                                                             for r in self._pending(s, now, liberal=True)]),
                   sig)
        # ---- C03: sequences
        self._check_sequence(sim, s, ns, app, procs, seqs, required, prules, arules, detail)
        # ---- C14: placement
        self._check_placement(sim, s, ns, app, identifier, states, procs, loads, prules, arules, distribution,
                              rule_ids, detail)
        self.requests.append({'s': s.nick, 'inc': s.incarnation, 'ns': ns, 'target': identifier, 't_us': now,
                              'app': app, 'mono': s.node['mono'] + now / US})

    def _single_plan(self, s, app):
        """ (key, overlap) of the current plan of S for a non-distributed application. """
        t_dist = self.distribution_entry.get((s.nick, s.incarnation), -1)
        op = self.ops.get((s.nick, app))
        plan_t0 = max(t_dist, op[0] if op else -1, self.stops.get((s.nick, s.incarnation, app), -1),
                      self.handler_plans.get((s.nick, s.incarnation, app), -1))
        overlap = plan_t0 >= 0 and any(r['s'] == s.nick and r['inc'] == s.incarnation and r['app'] == app
                                       and plan_t0 - 60 * US < r['t_us'] < plan_t0 for r in self.requests)
        return (s.nick, s.incarnation, app, plan_t0), overlap

    def _check_single_plan_load(self, s, ns, app, target, states, procs, loads, pend, detail, distribution):
        key, overlap = self._single_plan(s, app)
        node = self._node_of(target)
        on_node = {(q, i) for q, (_st, idents, real) in procs.items() if real in RUNNING_STATES
                   for i in idents if i in states and self._node_of(i) == node}
        base = self.single_plan_base.get(key)
        if base is None:
            base = self.single_plan_base[key] = (node, on_node, self.sim.now_us)
        if overlap or base[0] != node or self.sim.now_us - base[2] > 300 * US:
            return
        # (the application's own processes: those this plan has requested; a copy started meanwhile by another requester or
        # by hand is another plan's)
        own = {(r['ns'], r['target']) for r in self.requests if r['s'] == s.nick and r['inc'] == s.incarnation
               and r['app'] == app and r['t_us'] >= base[2]}
        counted = {(q, i) for (q, i) in on_node if (q, i) in base[1] or (q, i) in own}
        running_load = sum(loads[q] for q, _i in counted)
        pend_load = sum(loads.get(r['ns'], 0) for r in pend if r.get('app') == app and self._node_of(r['target']) == node)
        total = running_load + pend_load + loads.get(ns, 0)
        self._probe('single_plan_load_checked')
        if total > 100:
            # recorded finding: the load of a non-distributed application is the sum over its start-SEQUENCED processes
            # (get_start_sequence_expected_load); a program with start_sequence 0 started on demand is not in it, and the
            # commands of a non-distributed application are not load-checked again when they are requested
            from oracles.stops import _rule_of
            _a, prog_doc = _rule_of(self.sim.config, ns)
            on_demand = prog_doc is None or not (prog_doc.get('start_sequence') or 0)
            self.v('C04', 'node-overload', dict(detail, node=node, distribution=distribution, load=loads.get(ns, 0),
                                                counted={'%s@%s' % k: loads[k[0]] for k in sorted(counted)},
                                                own_pending=pend_load, on_demand=on_demand),
                   'node-overload:non-distributed-plan' + (':on-demand-process-not-in-application-load' if on_demand
                                                           else ''))

    # --- C03 ------------------------------------------------------------------------------------
    def _truly_running(self, ns):
        from oracles.agreement import truth
        for i in self.sim.instances.values():
            if i.alive and i.sd is not None:
                if truth(i).get(ns) == 'RUNNING':
                    return True
        return False

    def _done(self, q, procs, s=None):
        shown = procs.get(q)
        if shown is None:
            return True
        real = shown[2]
        if real == 'RUNNING' or shown[0] in ('FATAL', 'EXITED') or real in ('FATAL', 'EXITED'):
            return True
        if self._truly_running(q):
            return True
        if s is not None:
            # it was already running when the plan of S began (then it is not part of the plan), whatever happened since
            t0 = self._plan_start(s, q.split(':')[0])
            if t0 is not None and self.was_running_at(s, q, t0):
                return True
        # given up because the host of its start job was lost: S requested it and the target left RUNNING since
        if s is not None:
            for r in reversed(self.requests):
                if r['s'] == s.nick and r['inc'] == s.incarnation and r['ns'] == q:
                    lost = self.lost_since.get((s.nick, s.incarnation, r['target']), -1)
                    if lost >= r['t_us']:
                        return True
                    # it did finish starting after S requested it (somebody may have stopped it since)
                    if self.running_seen.get((s.nick, s.incarnation, q), -1) >= r['t_us']:
                        return True
                    # STOPPING is never the state a request starts from: the command has just failed on that event
                    # (a local event triggers the next request before it is published, hence not yet in the history)
                    if real == 'STOPPING':
                        return True
                    # an event was received for q after the request and q is stopped-like: the command failed
                    # (covers local events, which trigger the next request before they are published)
                    if real in STOPPED_STATES:
                        app_o = s.supvisors.context.applications.get(q.split(':')[0])
                        proc_o = app_o.processes.get(q.split(':')[1]) if app_o else None
                        if proc_o is not None and proc_o.last_event_mtime > r['mono']:
                            return True
                    # the start command failed: any of these events ends it (ProcessStartCommand.on_event FAILED)
                    for t, state, _e in self.history.get((s.nick, s.incarnation, q), ()):
                        if t >= r['t_us'] and state in (0, 40, 100, 200, 1000):
                            return True
                    break
        return False

    def _plan_start(self, s, app):
        """ Start of the current plan of S for this application: the operation or DISTRIBUTION entry behind it. """
        t_dist = self.distribution_entry.get((s.nick, s.incarnation), -1)
        t_op = self.ops.get((s.nick, app), (-1,))[0]
        t0 = max(t_dist, t_op)
        return t0 if t0 >= 0 else None

    def after_event(self, sim, inst, kind):
        if self.aborted and kind == 'tail':
            self._check_stop_strategy()
        if not inst.alive or inst.supvisors is None:
            return
        key0 = (inst.nick, inst.incarnation)
        prev = self.inst_states.setdefault(key0, {})
        for ident, st in inst.supvisors.context.instances.items():
            name = st.state.name
            if prev.get(ident) != name:
                if prev.get(ident) == 'RUNNING':
                    self.lost_since[(inst.nick, inst.incarnation, ident)] = sim.now_us
                    self._note_host_lost(sim, inst, ident)
                prev[ident] = name
        # when each process became known to the instance (a plan only holds what was known when it was built)
        for app in inst.supvisors.context.applications.values():
            for pname in app.processes:
                k = (inst.nick, inst.incarnation, '%s:%s' % (app.application_name, pname))
                if k not in self.first_known:
                    self.first_known[k] = sim.now_us

    def _check_sequence(self, sim, s, ns, app, procs, seqs, required, prules, arules, detail):
        if not self.app_plans_only:
            return
        self._probe('sequence_checked')
        seq = prules['start_sequence']
        if seq == 0:
            self.v('C03', 'unsequenced-process-started', dict(detail, start_sequence=0), 'unsequenced-process-started')
        lower = [q for q in procs if q.split(':')[0] == app and q != ns and 0 < seqs.get(q, 0) < seq]
        # a program that S only learnt after the plan began (brought by an instance admitted meanwhile) is not the plan's
        t_plan = max(self.distribution_first.get((s.nick, s.incarnation), -1), self.ops.get((s.nick, app), (-1,))[0])
        if t_plan >= 0:
            late = [q for q in lower if self.first_known.get((s.nick, s.incarnation, q), -1) > t_plan]
            if late:
                self._probe('lower_sequence_unknown_at_plan_time')
                lower = [q for q in lower if q not in late]
        not_done = [q for q in lower if not self._done(q, procs, s)]
        if not_done:
            sig = 'lower-sequence-not-done:%s' % procs[not_done[0]][2]
            if procs[not_done[0]][2] in STOPPED_STATES and t_plan >= 0:
                # recorded mechanism (see lower-sequence-not-done:STOPPING): a process that was STOPPING in S's view when the
                # plan was built is left out of it, and is not waited for; it has come to rest since
                last = None
                for t, state, _e in self.history.get((s.nick, s.incarnation, not_done[0]), ()):
                    if t <= t_plan:
                        last = state
                if last == 40:
                    sig += ':stopping-when-the-plan-was-built'
            self.v('C03', 'lower-sequence-not-done', dict(detail, start_sequence=seq,
                                                          pending={q: (seqs[q], procs[q][2]) for q in not_done}), sig)
        # application level, for automatic plans only (DISTRIBUTION / restart_sequence)
        t_dist = self.distribution_entry.get((s.nick, s.incarnation))
        t_op = self.ops.get((s.nick, app), (-1,))[0]
        ctx = s.supvisors.context
        # a restart of the application (RESTART_APPLICATION repair, stop then start) is not a distribution plan
        restarted = sim.now_us - self.stops.get((s.nick, s.incarnation, app), -10**12) < 90 * US or \
            sim.now_us - self.handler_plans.get((s.nick, s.incarnation, app), -10**12) < 90 * US
        # a user plan on the application accepted shortly before the DISTRIBUTION entry may still be unfolding
        # (restart_application on a stopped application sends no stop request at all)
        user_plan = t_op >= 0 and sim.now_us - t_op < 90 * US
        if t_dist is not None and t_op < t_dist and arules.get('managed') and not restarted and not user_plan:
            a_seq = arules.get('start_sequence', 0)
            if a_seq == 0:
                self.v('C03', 'unsequenced-application-started', dict(detail, app_start_sequence=0),
                       'unsequenced-application-started')
            for other in ctx.applications.values():
                o_seq = other.rules.start_sequence
                if other.application_name == app or not other.rules.managed or not (0 < o_seq < a_seq):
                    continue
                if self.ops.get((s.nick, other.application_name), (-1,))[0] > t_dist:
                    continue
                # was this application part of the plan? (never started or in failure at plan time is not observable
                # afterwards: only applications with a request of S since the plan began are considered)
                mine = [r for r in self.requests if r['s'] == s.nick and r['inc'] == s.incarnation
                        and r['app'] == other.application_name and r['t_us'] >= t_dist]
                if not mine:
                    continue
                nd = [q for q in procs if q.split(':')[0] == other.application_name and seqs.get(q, 0) > 0
                      and not self._done(q, procs, s)
                      and any(r['ns'] == q for r in mine)]
                if nd:
                    self.v('C03', 'lower-application-not-done', dict(detail, app_start_sequence=a_seq,
                                                                     other=other.application_name, other_sequence=o_seq,
                                                                     pending={q: procs[q][2] for q in nd}),
                           'lower-application-not-done')
        # starting failure strategy
        ab = self.aborted.get((s.nick, s.incarnation, app))
        if ab is not None:
            t_ab, level, strategy, q = ab
            # (a new plan is an ENTRY in DISTRIBUTION, not a re-publication of the state while the instance stays in it)
            plan_restart = max(self.ops.get((s.nick, app), (-1,))[0],
                               self.distribution_first.get((s.nick, s.incarnation), -1),
                               self.stops.get((s.nick, s.incarnation, app), -1),
                               self.handler_plans.get((s.nick, s.incarnation, app), -1))
            # a restart of the application accepted around the failure: its start phase is a new plan that begins when the
            # stop phase ends, i.e. possibly after the failure although the operation came before it
            op_r = self.ops.get((s.nick, app))
            restarting = bool(op_r and str(op_r[1]).endswith('restart_application') and op_r[0] > t_ab - 30 * US) or \
                self.handler_plans.get((s.nick, s.incarnation, app), -10**12) > t_ab - 30 * US
            if restarting:
                self._probe('abort_with_restart_in_progress_skipped')
            elif plan_restart < t_ab and sim.now_us - t_ab < 180 * US and seq > level:
                self.v('C03', 'request-after-required-failure', dict(detail, failed=q, strategy=strategy,
                                                                     failed_level=level, start_sequence=seq),
                       'request-after-required-failure:%s' % strategy)

    def finish(self):
        self._check_stop_strategy(final=True)

    def _check_stop_strategy(self, final=False):
        """ STOP starting failure strategy: "STOP then stops it once in-flight starts end": judged 45 s after the failure
        (or at the end of the run). """
        if not self.app_plans_only:
            return
        sim = self.sim
        from oracles.agreement import truth
        for (nick, inc, app), (t_ab, level, strategy, q) in sorted(self.aborted.items()):
            if strategy != 'STOP' or (nick, inc, app, t_ab) in self.stop_judged:
                continue
            if sim.now_us - t_ab < 45 * US:
                continue
            self.stop_judged.add((nick, inc, app, t_ab))
            s = sim.instances.get(nick)
            if s is None or not s.alive or s.incarnation != inc or s.supvisors is None:
                continue
            # nothing else may have driven the application since: user operations, failure handler plans, a new
            # DISTRIBUTION, jobs aborted by an election, faults
            reason = None
            if any(k[1] == app and v[0] > t_ab for k, v in self.ops.items()):
                reason = 'op'
            elif any(k[2] == app and v > t_ab for k, v in self.handler_plans.items()):
                reason = 'handler'
            elif self.distribution_first.get((nick, inc), -1) > t_ab:
                reason = 'distribution'
            elif self.abort_entry.get((nick, inc), -1) > t_ab:
                reason = 'jobs_aborted'
            if reason:
                self._probe('stop_strategy_superseded_skipped_%s' % reason)
                continue
            if any(fired and item['kind'] in ('crash', 'restart', 'partition', 'heal', 'stall') and t > t_ab - 30 * US
                   for t, item, fired in self.run.applied):
                self._probe('stop_strategy_disturbed_skipped')
                continue
            # same for a loss that is not an injected fault: the requester declared an instance lost (slow network, live
            # peer declared FAILED) around the failure: what runs there is out of its sight and reach
            if any(k[0] == nick and k[1] == inc and v > t_ab - 30 * US for k, v in self.lost_since.items()):
                self._probe('stop_strategy_disturbed_by_loss_skipped')
                continue
            running = sorted(ns for i in sim.instances.values() if i.alive and i.sd is not None
                             for ns, st in truth(i).items() if ns.split(':')[0] == app and st == 'RUNNING')
            self._probe('stop_strategy_judged')
            if running and self.stops.get((nick, inc, app), -1) < t_ab:
                self.v('C03', 'stop-strategy-not-applied',
                       {'requester': nick, 'application': app, 'failed': q, 'failed_at': t_ab / US,
                        'still_running': running}, 'stop-strategy-not-applied')

    def _note_host_lost(self, sim, inst, ident):
        """ S sees the host of a start it requested leave RUNNING before the start ended: the process is given up,
        which is a starting failure ("failed, timed out, host lost"). """
        if not self.app_plans_only:
            return
        for r in self.requests:
            if r['s'] != inst.nick or r['inc'] != inst.incarnation or r['target'] != ident or r.get('resolved') \
                    or sim.now_us - r['t_us'] > 180 * US:
                continue
            q = r['ns']
            if self.running_seen.get((inst.nick, inst.incarnation, q), -1) >= r['t_us']:
                continue
            if any(t >= r['t_us'] and state in (0, 40, 100, 200, 1000)
                   for t, state, _e in self.history.get((inst.nick, inst.incarnation, q), ())):
                continue
            r['resolved'] = True
            app = inst.supvisors.context.applications.get(q.split(':')[0])
            proc = app.processes.get(q.split(':')[1]) if app else None
            if proc is None:
                continue
            rules = proc.rules.serial()
            self._probe('host_lost_during_start')
            if rules['required'] and rules['starting_failure_strategy'] in ('ABORT', 'STOP'):
                self.aborted[(inst.nick, inst.incarnation, app.application_name)] = \
                    (r['t_us'], rules['start_sequence'], rules['starting_failure_strategy'], q)
                self._probe('required_start_failure_host_lost')

    def _note_failure(self, sim, inst, ns):
        """ S has just handled (and published) a FATAL of ns: if S had requested it, this is a starting failure. """
        if not self.app_plans_only:
            return
        mine = [r for r in self.requests if r['s'] == inst.nick and r['inc'] == inst.incarnation and r['ns'] == ns
                and sim.now_us - r['t_us'] < 180 * US and not r.get('resolved')]
        if not mine:
            return
        # a local event is published after its whole handling (which may already have started a new plan): the failure
        # belongs to the oldest unresolved request, and is dated at that request
        failed_request = mine[0]
        failed_request['resolved'] = True
        # the request had already ended (started, or failed on a stop-like event) before this FATAL: the failure belongs
        # to a later start by somebody else
        if any(failed_request['t_us'] < t < sim.now_us - 1000 and state in (0, 20, 40, 100, 1000)
               for t, state, _e in self.history.get((inst.nick, inst.incarnation, ns), ())):
            self._probe('fatal_after_request_had_ended')
            return
        ctx = inst.supvisors.context
        app = ctx.applications.get(ns.split(':')[0])
        if app is None:
            return
        proc = app.processes.get(ns.split(':')[1])
        if proc is None:
            return
        r = proc.rules.serial()
        if r['required'] and r['starting_failure_strategy'] in ('ABORT', 'STOP'):
            self.aborted[(inst.nick, inst.incarnation, app.application_name)] = \
                (failed_request['t_us'], r['start_sequence'], r['starting_failure_strategy'], ns)
            self._probe('required_start_failure')

    # --- C04 converse ---------------------------------------------------------------------------
    def _check_no_resource(self, sim, s, ns):
        with frozen(sim, s):
            states, procs, loads, seqs, required = self._view(sim, s)
        prules, arules = self._rules(sim, s, ns)
        app = ns.split(':')[0]
        distribution = arules.get('distribution', 'ALL_INSTANCES') if arules.get('managed') else 'ALL_INSTANCES'
        if distribution != 'ALL_INSTANCES':
            return  # the whole application must fit: judged by C14
        strategies = {arules.get('starting_strategy'), sim.config['supvisors'].get('starting_strategy')}
        op = self.ops.get((s.nick, app))
        if op:
            strategies.add(str(op[2][0]))
        if 'LOCAL' in strategies or 3 in strategies or '3' in strategies:
            return
        if sim.now_us - self.recent_local.get(s.nick, -10**12) < 180 * US:
            return
        proc = s.supvisors.context.applications[app].processes[ns.split(':')[1]]
        rule_ids = prules['identifiers']
        allowed = set(states) if '*' in rule_ids else set(s.supvisors.mapper.filter(list(rule_ids)))
        pend = self._pending(s, sim.now_us, liberal=True)
        cands = []
        for ident in sorted(allowed):
            if states.get(ident) != 'RUNNING':
                continue
            info = proc.info_map.get(ident)
            if info is None or info.get('disabled'):
                continue
            node = self._node_of(ident)
            load = sum(loads[q] for q, (_s, idents, real) in procs.items() for i in idents
                       if i in states and self._node_of(i) == node and real in RUNNING_STATES + ('STOPPING',))
            load += sum(loads.get(r['ns'], 0) for r in pend if self._node_of(r['target']) == node)
            if load + loads.get(ns, 0) <= 100:
                cands.append((ident, load))
        self._probe('no_resource_checked')
        if cands:
            # what the code itself computes for the nodes (duplicates in mapper.nodes are a known suspect)
            nodes = {k: list(v) for k, v in s.supvisors.mapper.nodes.items()}
            dup = any(len(v) != len(set(v)) for v in nodes.values())
            self.v('C04', 'resource-was-available', {'requester': s.nick, 'process': ns, 'candidates': cands,
                                                     'load': loads.get(ns, 0), 'mapper_nodes': nodes},
                   'resource-was-available' + (':duplicate-identifiers-in-node-map' if dup else ''))

    local_ops = False

    # --- C14 ------------------------------------------------------------------------------------
    def _check_placement(self, sim, s, ns, app, target, states, procs, loads, prules, arules, distribution, rule_ids,
                         detail):
        now = sim.now_us
        t_dist = self.distribution_entry.get((s.nick, s.incarnation), -1)
        op = self.ops.get((s.nick, app))
        # distribution rule: one instance / one node for all the requests of one application plan
        if distribution in ('SINGLE_INSTANCE', 'SINGLE_NODE'):
            # a plan begins with DISTRIBUTION / restart_sequence, an accepted operation, or the stop phase of a restart
            # of the application (RESTART_APPLICATION repair): each plan chooses its instance / node afresh
            plan_t0 = max(t_dist, op[0] if op else -1, self.stops.get((s.nick, s.incarnation, app), -1),
                          self.handler_plans.get((s.nick, s.incarnation, app), -1))
            if plan_t0 >= 0 and any(r['s'] == s.nick and r['inc'] == s.incarnation and r['app'] == app
                                    and plan_t0 - 60 * US < r['t_us'] < plan_t0 for r in self.requests):
                # a new plan (DISTRIBUTION entry, failure handler job, operation) was decided while an earlier plan of the
                # application was still unfolding: it only begins when the earlier job is over, and the requests of both
                # follow each other
                self._probe('distribution_rule_plans_overlap_skipped')
                return
            key = (s.nick, s.incarnation, app, plan_t0)
            prev = self.single_targets.setdefault(key, [])
            for p_target, p_t in prev:
                if now - p_t > 300 * US:
                    continue
                if distribution == 'SINGLE_INSTANCE' and p_target != target:
                    self.v('C14', 'single-instance-split', dict(detail, previous=p_target), 'single-instance-split')
                elif distribution == 'SINGLE_NODE' and self._node_of(p_target) != self._node_of(target):
                    self.v('C14', 'single-node-split', dict(detail, previous=p_target), 'single-node-split')
            prev.append((target, now))
            self._probe('distribution_rule_checked')
            if distribution == 'SINGLE_NODE':
                self._check_config_in_node(s, ns, app, target, states, arules, rule_ids, detail, key, t_dist)
            return
        # strategy optimality, judged when the loads are unambiguous: the outstanding requests of S are either certainly
        # counted as requested load (sent < 5 s ago, no event since, process still stopped in S's view) or absent
        certain = [r for r in self._pending(s, now) if r['ns'] != ns
                   and procs.get(r['ns'], ('', set(), 'STOPPED'))[2] in STOPPED_STATES]
        certain_ids = {id(r) for r in certain}
        if any(id(r) not in certain_ids and r['ns'] != ns and now - r['t_us'] < 30 * US and
               procs.get(r['ns'], ('', set(), 'STOPPED'))[2] in STOPPED_STATES + ('STARTING', 'BACKOFF')
               for r in self._pending(s, now, liberal=True)):
            self._probe('placement_skipped_pending')
            return
        # commands of non-distributed applications hold an instance before being requested: not observable here
        if any(getattr(job, 'distribution', None) is not None and job.distribution.name != 'ALL_INSTANCES'
               for job in s.supvisors.starter.current_jobs.values()):
            self._probe('placement_skipped_non_distributed_job')
            return
        if certain:
            self._probe('placement_with_pending')
        strategy = self._plan_strategy(s, app, arules, t_dist)
        if strategy is None:
            return
        if not self.strategy_known:
            return
        proc = s.supvisors.context.applications[app].processes[ns.split(':')[1]]
        order = list(states) if '*' in rule_ids else s.supvisors.mapper.filter(list(rule_ids))

        def verdict(pending):
            inst_load, node_load = {}, {}
            for ident in states:
                inst_load[ident] = sum(loads[q] for q, (_s, idents, real) in procs.items()
                                       if ident in idents and real in RUNNING_STATES)
            for r in pending:
                if r['target'] in inst_load:
                    inst_load[r['target']] += loads.get(r['ns'], 0)
            for ident in states:
                node_load[ident] = sum(v for i, v in inst_load.items() if self._node_of(i) == self._node_of(ident))
            elig = []
            for ident in order:
                if states.get(ident) != 'RUNNING':
                    continue
                info = proc.info_map.get(ident)
                if info is None or info.get('disabled'):
                    continue
                if node_load[ident] + loads.get(ns, 0) > 100:
                    continue
                elig.append(ident)
            d = dict(detail, strategy=strategy, eligible=elig, instance_load=inst_load, node_load=node_load)
            if target not in elig:
                return None, d  # C04's business
            if strategy == 'CONFIG' and target != elig[0]:
                return 'config-order', d
            if strategy == 'LESS_LOADED' and inst_load[target] > min(inst_load[i] for i in elig):
                return 'less-loaded', d
            if strategy == 'MOST_LOADED' and inst_load[target] < max(inst_load[i] for i in elig):
                return 'most-loaded', d
            if strategy == 'LESS_LOADED_NODE' and node_load[target] > min(node_load[i] for i in elig):
                return 'less-loaded-node', d
            if strategy == 'MOST_LOADED_NODE' and node_load[target] < max(node_load[i] for i in elig):
                return 'most-loaded-node', d
            if strategy == 'LOCAL' and target != s.identifier:
                return 'local', d
            return None, d

        self._probe('placement_checked_%s' % strategy)
        clause, d = verdict(certain)
        if clause is None:
            return
        # known mechanism (C04 finding): the jobs of the applications of one sequence are processed in one pass and an
        # application job only counts its own requested loads: the requests of the OTHER applications are ignored
        own = [r for r in certain if r.get('app') == app]
        if len(own) != len(certain) and verdict(own)[0] is None:
            self.v('C14', clause, d, clause + ':concurrent-applications-ignore-each-other')
        else:
            self.v('C14', clause, d, clause)

    strategy_known = True

    NAMES = ['CONFIG', 'LESS_LOADED', 'MOST_LOADED', 'LOCAL', 'LESS_LOADED_NODE', 'MOST_LOADED_NODE']

    def _plan_strategy(self, s, app, arules, t_dist):
        """ Name of the starting strategy of the plan behind a request of S for the application: the one of the accepted
        operation, or the one of the rules (DISTRIBUTION, failure handler); None when the attribution is ambiguous. """
        op = self.ops.get((s.nick, app))
        t_stop = self.stops.get((s.nick, s.incarnation, app), -1)
        t_handler = self.handler_plans.get((s.nick, s.incarnation, app), -1)
        prev_op = self.prev_ops.get((s.nick, app))
        if op and prev_op and op[0] - prev_op[0] < 60 * US:
            # two accepted operations on the application within one plan duration: the second one is merged into (or
            # ignored by) the job of the first, whose strategy goes on
            self._probe('placement_attribution_ambiguous')
            return None
        if op and t_handler >= op[0]:
            op = None   # the plan comes from the failure handler: strategy of the rules
        if op and op[0] > t_dist:
            # stop requests of S for this application after the operation: either the stop phase of this very
            # restart_application, or a later restart by the failure handler (which uses the rules strategy): ambiguous
            if t_stop > op[0] and not (op[1] == 'restart_application' and t_stop - op[0] < 60 * US):
                self._probe('placement_attribution_ambiguous')
                return None
            strategy = op[2][0]
        else:
            strategy = arules.get('starting_strategy') if arules.get('managed') else None
        if strategy is None:
            return None
        if isinstance(strategy, int):
            if not 0 <= strategy < len(self.NAMES):
                return None
            strategy = self.NAMES[strategy]
        if strategy not in self.NAMES:
            return None
        return strategy

    def _check_config_in_node(self, s, ns, app, target, states, arules, rule_ids, detail, key, t_dist):
        """ SINGLE_NODE + CONFIG: inside the chosen node, a process goes to the first instance, in the declared order of
        the application, that is RUNNING and has the program enabled. The instances of the node are fixed when the plan is
        made (first request): a better instance must have been RUNNING then, and ever since. """
        mates_running = self.single_plan_view.get(key)
        first = mates_running is None
        node = self._node_of(target)
        order = list(states) if '*' in rule_ids else s.supvisors.mapper.filter(list(rule_ids))
        mates = [i for i in order if self._node_of(i) == node]
        if first:
            mates_running = self.single_plan_view[key] = ({i for i in mates if states.get(i) == 'RUNNING'}, self.sim.now_us)
        if self._plan_strategy(s, app, arules, t_dist) != 'CONFIG' or not self.strategy_known or target not in mates:
            return
        running_at_plan, t_plan = mates_running
        proc = s.supvisors.context.applications[app].processes[ns.split(':')[1]]
        better = []
        for i in mates[:mates.index(target)]:
            info = proc.info_map.get(i)
            if i in running_at_plan and states.get(i) == 'RUNNING' and info is not None and not info.get('disabled') \
                    and self.lost_since.get((s.nick, s.incarnation, i), -1) < t_plan:
                better.append(i)
        self._probe('config_order_in_node_checked')
        if len(mates) > 1:
            self._probe('config_order_in_node_checked_several_instances')
        if better:
            self.v('C14', 'config-order', dict(detail, strategy='CONFIG', node=node, declared_order=mates, better=better),
                   'config-order:inside-the-single-node')
