"""C19: start predictions are side-effect free and match a real start.

Twin runs of one seed: the simulator is deterministic, so two executions of the same scenario are the same cluster up to
the probe instant ("cloned cluster"). Run A asks test_start_* (several times) and checks that nothing observable moved and
that no request left; run B issues the real start_* from the very same situation, with children that all start normally,
and the requests it emits are compared with the placement predicted in run A."""
import collections

from supvsim.scenario import Observer, Run, frozen
from supvsim.kernel import US
from oracles.isolation import full_snapshot, diff


class Prediction(Observer):
    prop = 'C19'

    def __init__(self, mode):
        super().__init__()
        self.mode = mode          # 'test' (run A) or 'real' (run B)
        self.probes = {}
        self.active = None        # probe being executed (requests pushed inside the handler are recorded)
        self.pushed = []
        self.outcomes = []        # per probe: dict
        self.requests = []        # (t_us, requester, ns, target)
        self.in_handler = False

    def _probe(self, name):
        self.probes[name] = self.probes.get(name, 0) + 1

    def on_request(self, sim, inst, identifier, rtype, body):
        from supvisors.ttypes import RequestHeaders
        if self.active is not None and self.in_handler:
            self.pushed.append((inst.nick, rtype.name, identifier))
        if rtype == RequestHeaders.START_PROCESS:
            self.requests.append((sim.now_us, inst.nick, body[0], identifier))

    def on_publication(self, sim, inst, ptype, body):
        from supvisors.ttypes import PublicationHeaders
        if self.active is not None and self.in_handler and ptype != PublicationHeaders.TICK:
            self.pushed.append((inst.nick, 'publication', ptype.name))

    def before_rpc(self, sim, dst, rec, params):
        if self.active is not None and rec['via'] == 'client' and rec['method'].startswith('supvisors.test_start'):
            with frozen(sim, dst):
                self.before = full_snapshot(dst)
            self.in_handler = True   # what is pushed from here to on_wire is pushed by the handler itself

    def on_wire(self, sim, rec):
        if self.active is not None and rec['via'] == 'client' and rec['method'].startswith('supvisors.test_start'):
            self.in_handler = False
            inst = sim.instances.get(rec['dst'])
            if inst is not None and inst.alive and getattr(self, 'before', None) is not None:
                with frozen(sim, inst):
                    self.changes = diff(self.before, full_snapshot(inst))
                self.before = None

    def on_probe(self, item, nick):
        sim = self.sim
        inst = sim.instances.get(nick)
        if inst is None or not inst.alive or inst.supvisors is None:
            self.outcomes.append(None)
            return False
        strategy, name = item['strategy'], item['name']
        out = {'inst': nick, 't_us': sim.now_us, 'item': item, 'fsm': inst.supvisors.fsm.state.name}
        app = inst.supvisors.context.applications.get(name.split(':')[0])
        out['sequences'] = {p.namespec: p.rules.start_sequence for p in app.processes.values()} if app else {}
        if self.mode == 'test':
            method = 'supvisors.test_start_application' if item['mode'] == 'application' else 'supvisors.test_start_process'
            results = []
            detail = {'inst': nick, 'method': method, 'args': [strategy, name], 'fsm': out['fsm']}
            for _k in range(item.get('repeat', 1)):
                # the snapshots are taken by before_rpc / on_wire, around the handler alone (the rest of the
                # supervisord loop iteration - ticks, process transitions - is not part of the call)
                self.active, self.pushed, self.changes = item, [], None
                rec = sim.client_call(nick, method, [strategy, name])
                self.active = None
                results.append(rec.get('result') if 'result' in rec else
                               ('fault', (rec.get('fault') or [None])[0], rec.get('http500')))
                if self.changes:
                    self.violate('side-effect', dict(detail, changes=self.changes),
                                 'prediction-changed-status:%s' % item['mode'])
                if self.pushed:
                    self.violate('side-effect', dict(detail, pushed=self.pushed),
                                 'prediction-sent-messages:%s' % item['mode'])
            out['results'] = results
            self._probe('probe_test')
            if any(r != results[0] for r in results[1:]):
                self.violate('unstable', dict(detail, results=results[:3]), 'repeated-predictions-differ:%s' % item['mode'])
            if isinstance(results[0], list):
                self._probe('prediction_obtained')
        else:
            method = 'supvisors.start_application' if item['mode'] == 'application' else 'supvisors.start_process'
            args = [strategy, name, False] if item['mode'] == 'application' else [strategy, name, '', False]
            rec = sim.client_call(nick, method, args)
            out['result'] = rec.get('result') if 'result' in rec else \
                ('fault', (rec.get('fault') or [None])[0], rec.get('http500'))
            self._probe('probe_real')
        self.outcomes.append(out)
        return True


    def finish(self):
        # was the real start over when the run ended?
        sim = self.sim
        for out in self.outcomes:
            if out is None:
                continue
            inst = sim.instances.get(out['inst'])
            out['finished'] = bool(inst is not None and inst.alive and inst.supvisors is not None
                                   and not inst.supvisors.starter.in_progress()
                                   and not inst.supvisors.stopper.in_progress())


class TwinRun:
    """ Looks like a Run to the batch driver. """

    def __init__(self, scen, base_observers):
        self.scen = scen
        self.base_observers = base_observers
        self.a = self.b = None
        self.cmp_probes = collections.Counter()

    def _make(self, mode):
        scen = self.scen
        pred = Prediction(mode)
        run = Run(scen['config'], scen['plan'], scen['seed'], observers=self.base_observers() + [pred],
                  t_end=scen['t_end'])
        return run, pred

    def execute(self):
        self.a, pa = self._make('test')
        violations = list(self.a.execute())
        digest_a = self.a.closed_digest
        self.b, pb = self._make('real')
        violations_b = self.b.execute()
        # violations of the base observers are the same in both runs up to the probe: keep those of run B that are new
        seen = {(v.prop, v.signature) for v in violations}
        violations += [v for v in violations_b if (v.prop, v.signature) not in seen]
        violations += self._compare(pa, pb)
        # what the batch driver reads
        self.sim = self.b.sim
        self.sim.stats.update({'twin_runs': 1})
        self.fault_counts = self.a.fault_counts
        self.observers = self.a.observers + [self]
        self.abstract_states = self.a.abstract_states | self.b.abstract_states
        self.closed_digest = digest_a[:32] + self.b.closed_digest[:32]
        self.probes = dict(self.cmp_probes)
        for k, v in pb.probes.items():
            self.probes[k] = self.probes.get(k, 0) + v
        return violations

    def _compare(self, pa, pb):
        from supvsim.scenario import Violation
        out = []
        for oa, ob in zip(pa.outcomes, pb.outcomes):
            if oa is None or ob is None:
                continue
            if oa['t_us'] != ob['t_us'] or oa['inst'] != ob['inst'] or oa['fsm'] != ob['fsm']:
                # the two runs are the same execution up to the first probe only
                self.cmp_probes['diverged_before_probe'] += 1
                break
            pred = oa['results'][0]
            item = oa['item']
            detail = {'inst': oa['inst'], 'mode': item['mode'], 'args': [item['strategy'], item['name']],
                      'prediction': pred, 'real_result': ob['result']}
            if not isinstance(pred, list):
                # the prediction was refused: the real start is refused the same way
                self.cmp_probes['prediction_refused'] += 1
                if isinstance(ob['result'], tuple) != isinstance(pred, tuple) or \
                        (isinstance(pred, tuple) and pred[1] != ob['result'][1]):
                    # ABNORMAL_TERMINATION (nothing could be queued) has no counterpart in a prediction
                    if not (isinstance(ob['result'], tuple) and ob['result'][1] == 40):
                        out.append(Violation('C19', 'refusal-differs', detail, oa['t_us'], 'refusal-differs'))
                break
            if isinstance(ob['result'], tuple):
                if ob['result'][1] == 40 and all(not p['running_identifiers'] for p in pred):
                    self.cmp_probes['nothing_startable_both'] += 1
                else:
                    out.append(Violation('C19', 'real-start-refused', detail, oa['t_us'], 'real-start-refused'))
                break
            if not ob.get('finished'):
                self.cmp_probes['real_start_unfinished'] += 1
                break
            # requests of the real start, by the probed instance, after the probe
            reqs = collections.OrderedDict()
            for t_us, requester, ns, target in pb.requests:
                if t_us >= ob['t_us'] and requester == ob['inst']:
                    reqs.setdefault(ns, []).append(target)
            self.cmp_probes['placement_compared'] += 1
            seqs = oa.get('sequences', {})
            placed = [seqs.get('%s:%s' % (p['application_name'], p['process_name']), 0) for p in pred
                      if p['running_identifiers']]
            first_seq = min(placed) if placed else None

            def sig(base, ns):
                # known mechanism: the model forgets the load of the processes it has already brought to RUNNING, so
                # the placements of the LATER start sequences are computed on lighter loads than in a real start
                if first_seq is not None and seqs.get(ns, 0) > first_seq:
                    return base + ':later-sequence-ignores-load-of-earlier-ones'
                # known mechanism: start_process on 'group:*' triggers the Starter once per process (the first process is
                # requested before the others are even planned) whereas the model plans them all and then triggers once
                if item['mode'] == 'process' and str(item['name']).endswith(':*'):
                    return base + ':wildcard-request-planned-in-one-batch'
                return base
            for p in pred:
                ns = '%s:%s' % (p['application_name'], p['process_name'])
                want = p['running_identifiers']
                got = reqs.get(ns, [])
                d = dict(detail, process=ns, predicted=want, requested=got,
                         all_requests={k: v for k, v in reqs.items()})
                all_placed = all(q['running_identifiers'] or q['state'] == 'STOPPED' for q in pred)
                if len(got) > 1 and all_placed:
                    out.append(Violation('C19', 'requested-twice', d, oa['t_us'], 'real-start-requested-twice'))
                    continue
                if len(got) > 1:
                    # a process that cannot be placed is a starting failure: the failure strategies of the application
                    # (stop, restart) legitimately ask again later; the placement is the first request
                    got = got[:1]
                if want and not got:
                    out.append(Violation('C19', 'placement', d, oa['t_us'], sig('predicted-but-not-requested', ns)))
                elif got and not want:
                    out.append(Violation('C19', 'placement', d, oa['t_us'], sig('requested-but-predicted-unplaced', ns)))
                elif want and got and got[0] not in want:
                    out.append(Violation('C19', 'placement', d, oa['t_us'], sig('placement-differs', ns)))
                else:
                    self.cmp_probes['process_agrees'] += 1
            break   # one comparison per twin run: after the first real start the two runs are different clusters
        return out
