"""C10: every start/stop job terminates in bounded ticks whatever gets lost."""
import math

from supvsim.scenario import Observer, frozen
from supvsim.kernel import US


def bound_ticks(config):
    """ From the configuration and the documentation only (DESIGN section 6, C10). """
    secs, retries = 0, 0
    for g in config['groups']:
        for p in g['programs']:
            secs = max(secs, p.get('startsecs', 1), p.get('stopwaitsecs', 2))
            retries = max(retries, p.get('startretries', 1))
    n = len(config['instances'])
    return (math.ceil(secs / 5) + max(2, n // 10)) * (retries + 1) + config['supvisors'].get('inactivity_ticks', 2) + 3


class JobTermination(Observer):
    prop = 'C10'

    def __init__(self):
        super().__init__()
        self.probes = {}
        self.k = {}
        self.busy_since = {}     # (nick, inc) -> (k at which jobs became busy or last request was pushed)
        self.bound = None
        self.worst = 0

    def _probe(self, name, n=1):
        self.probes[name] = self.probes.get(name, 0) + n

    def attach(self, run):
        super().attach(run)
        self.bound = bound_ticks(run.config)

    def on_request(self, sim, inst, identifier, rtype, body):
        from supvisors.ttypes import RequestHeaders
        if rtype in (RequestHeaders.START_PROCESS, RequestHeaders.STOP_PROCESS):
            key = (inst.nick, inst.incarnation)
            if key in self.k:
                self.busy_since[key] = self.k[key]

    def on_publication(self, sim, inst, ptype, body):
        from supvisors.ttypes import PublicationHeaders
        key = (inst.nick, inst.incarnation)
        if ptype == PublicationHeaders.PROCESS and body.get('forced'):
            self._probe('forced_state_published')
            return
        if ptype != PublicationHeaders.TICK:
            return
        k = body['sequence_counter']
        self.k[key] = k
        sv = inst.supvisors
        busy = sv.starter.in_progress() or sv.stopper.in_progress()
        if not busy:
            self.busy_since.pop(key, None)
            return
        since = self.busy_since.setdefault(key, k)
        stretch = k - since
        self.worst = max(self.worst, stretch)
        if stretch > self.bound:
            jobs = {'starter': sorted(sv.starter.get_application_job_names()),
                    'stopper': sorted(sv.stopper.get_application_job_names())}
            waiting = []
            for commander in (sv.starter, sv.stopper):
                for job in commander.current_jobs.values():
                    for cmd in job.current_jobs:
                        waiting.append((cmd.namespec, cmd.identifier, cmd.process.state_string(),
                                        cmd.instance_status.state.name if cmd.instance_status else None))
            kind = 'start' if sv.starter.in_progress() else 'stop'
            target_states = sorted({w[3] for w in waiting if w[3]})
            self.violate('job-never-ends', {'inst': inst.nick, 'ticks_without_request': stretch, 'bound': self.bound,
                                            'jobs': jobs, 'waiting': waiting[:6]},
                         'job-never-ends:%s:target-%s' % (kind, '+'.join(target_states) or 'none'))
            self.busy_since[key] = k   # report once per stretch

    def finish(self):
        self._probe('worst_stretch_ticks', self.worst)
