"""C17: XML-RPC commands are gated by the Supvisors state and fail cleanly.

Every user call of a gated method, on instances brought to their state by a real simulated history, is judged
against the documented table: served only in its states (BAD_SUPVISORS_STATE otherwise, and never BAD_SUPVISORS_STATE
in them), BAD_NAME / INCORRECT_PARAMETERS / NOT_MANAGED for the documented parameter errors, and a rejected request has
no effect: observable snapshot unchanged, no request and no publication pushed by the handler."""
from supvsim.scenario import Observer, frozen
from oracles.isolation import full_snapshot, diff

FROM_DISTRIBUTION = ('DISTRIBUTION', 'OPERATION', 'CONCILIATION', 'RESTARTING', 'SHUTTING_DOWN')
GATES = {}
for _m in ('get_all_applications_info', 'get_application_info', 'get_application_rules', 'get_all_process_info',
           'get_process_info', 'get_process_rules', 'get_conflicts', 'restart', 'shutdown'):
    GATES[_m] = FROM_DISTRIBUTION
for _m in ('start_application', 'restart_application', 'test_start_application', 'start_process', 'restart_process',
           'test_start_process', 'start_any_process', 'update_numprocs', 'enable', 'disable', 'restart_sequence'):
    GATES[_m] = ('OPERATION',)
for _m in ('stop_application', 'stop_process'):
    GATES[_m] = ('OPERATION', 'CONCILIATION')
GATES['conciliate'] = ('CONCILIATION',)
GATES['end_sync'] = ('SYNCHRONIZATION',)

BAD_STATE, BAD_NAME, BAD_PARAM, NOT_MANAGED = 101, 10, 2, 102
REJECTIONS = (BAD_STATE, BAD_NAME, BAD_PARAM, NOT_MANAGED)
STRATEGIES = ['CONFIG', 'LESS_LOADED', 'MOST_LOADED', 'LOCAL', 'LESS_LOADED_NODE', 'MOST_LOADED_NODE']
CONCILIATIONS = ['SENICIDE', 'INFANTICIDE', 'USER', 'STOP', 'RESTART', 'RUNNING_FAILURE']

# parameter layout: index of the strategy / application / namespec argument
STRATEGY_ARG = {'start_application': 0, 'restart_application': 0, 'test_start_application': 0, 'start_process': 0,
                'restart_process': 0, 'test_start_process': 0, 'start_any_process': 0}
APP_ARG = {'start_application': 1, 'restart_application': 1, 'test_start_application': 1, 'stop_application': 0,
           'get_application_info': 0, 'get_application_rules': 0}
NAMESPEC_ARG = {'start_process': 1, 'restart_process': 1, 'test_start_process': 1, 'stop_process': 0,
                'get_process_info': 0, 'get_process_rules': 0}
MANAGED_ONLY = ('start_application', 'restart_application', 'test_start_application', 'stop_application')


def valid_enum(value, names):
    if type(value) is str:
        return value in names
    if type(value) is int:
        return 0 <= value < len(names)
    return False


class Gating(Observer):
    prop = 'C17'

    def __init__(self):
        super().__init__()
        self.probes = {}
        self.pending = {}
        self.pushed = {}

    def _probe(self, name):
        self.probes[name] = self.probes.get(name, 0) + 1

    def before_rpc(self, sim, dst, rec, params):
        if rec['via'] != 'client' or not rec['method'].startswith('supvisors.'):
            return
        meth = rec['method'].split('.', 1)[1]
        if meth not in GATES or dst.supvisors is None:
            return
        sv = dst.supvisors
        ctx = sv.context
        state = sv.fsm.state.name
        info = {'method': meth, 'params': list(params), 'state': state, 'inc': dst.incarnation,
                'master': sv.state_modes.is_master(), 'has_master': bool(sv.state_modes.master_identifier)}
        # parameter classification, against what the instance knows when the call arrives
        names = {}
        if meth in STRATEGY_ARG and len(params) > STRATEGY_ARG[meth]:
            names['strategy_ok'] = valid_enum(params[STRATEGY_ARG[meth]], STRATEGIES)
        if meth == 'conciliate' and params:
            names['strategy_ok'] = valid_enum(params[0], CONCILIATIONS)
        if meth in APP_ARG and len(params) > APP_ARG[meth]:
            app = params[APP_ARG[meth]]
            names['name_ok'] = type(app) is str and app in ctx.applications
            if names['name_ok']:
                names['managed'] = bool(ctx.applications[app].rules.managed)
        if meth in NAMESPEC_ARG and len(params) > NAMESPEC_ARG[meth]:
            ns = params[NAMESPEC_ARG[meth]]
            ok = False
            if type(ns) is str and ':' in ns:
                a, _, p = ns.partition(':')
                ok = a in ctx.applications and (p == '*' or p in ctx.applications[a].processes)
            elif type(ns) is str and ns in ctx.applications:
                ok = None   # a bare group name: spelling accepted by Supervisor, left open
            names['name_ok'] = ok
        info['class'] = names
        # documented extra condition of restart_sequence: jobs in progress on ANY instance, as this instance sees it
        # through get_supvisors_state (starting_jobs / stopping_jobs lists)
        if meth == 'restart_sequence':
            with frozen(sim, dst):
                st = dst.rpcif.get_supvisors_state()
            info['jobs_anywhere'] = bool(st.get('starting_jobs') or st.get('stopping_jobs'))
        info['user_sync'] = 'USER' in [o.name if hasattr(o, 'name') else str(o) for o in sv.options.synchro_options]
        with frozen(sim, dst):
            info['snapshot'] = full_snapshot(dst)
        self.pending[dst.nick] = info
        self.pushed[dst.nick] = []

    def on_request(self, sim, inst, identifier, rtype, body):
        if inst.nick in self.pending:
            self.pushed[inst.nick].append(('request', rtype.name, identifier))

    def on_publication(self, sim, inst, ptype, body):
        from supvisors.ttypes import PublicationHeaders
        if inst.nick in self.pending and ptype in (PublicationHeaders.STATE, PublicationHeaders.PROCESS):
            self.pushed[inst.nick].append(('publication', ptype.name))

    def on_wire(self, sim, rec):
        # the record is complete (outcome, fault) when the wire hook runs, right after the handler
        if rec['via'] != 'client':
            return
        info = self.pending.pop(rec['dst'], None)
        pushed = self.pushed.pop(rec['dst'], [])
        if info is None:
            return
        inst = sim.instances.get(rec['dst'])
        if inst is None or not inst.alive or inst.incarnation != info['inc']:
            return
        if rec.get('outcome') == 'http500':
            # neither a result nor a fault: an exception other than RPCError left the method ("fail cleanly")
            self.violate('not-a-fault', {'inst': inst.nick, 'method': info['method'], 'params': info['params'],
                                         'state': info['state'], 'has_master': info['has_master']},
                         'internal-error-instead-of-fault:%s' % info['method'])
            return
        if rec.get('outcome') not in ('ok', 'fault'):
            return
        meth, state = info['method'], info['state']
        fault = rec.get('fault') if rec['outcome'] == 'fault' else None
        allowed = state in GATES[meth]
        detail = {'inst': inst.nick, 'method': meth, 'params': info['params'], 'state': state, 'fault': fault,
                  'master': info['master'], 'class': info['class']}
        self._probe('call_%s_%s' % ('allowed' if allowed else 'refused', state))
        self._probe('method_%s' % meth)
        if not allowed:
            if fault != BAD_STATE:
                self.violate('served-out-of-state', detail, 'served-out-of-state:%s:%s' % (meth, state))
        else:
            cls = info['class']
            # end_sync (Master already chosen) and restart_sequence (jobs in progress anywhere) document further
            # BAD_SUPVISORS_STATE conditions
            # restart / shutdown document it when no Master is known to perform the request
            if fault == BAD_STATE and meth not in ('end_sync', 'restart_sequence') \
                    and not (meth in ('restart', 'shutdown') and not info['has_master']):
                self.violate('refused-in-state', detail, 'refused-in-state:%s:%s' % (meth, state))
            if meth == 'restart_sequence' and info.get('jobs_anywhere'):
                self._probe('restart_sequence_with_jobs_somewhere')
                if fault != BAD_STATE:
                    self.violate('served-with-jobs', detail, 'served-with-jobs-in-progress:restart_sequence')
            if meth == 'restart_sequence' and fault == BAD_STATE and not info.get('jobs_anywhere'):
                self.violate('refused-in-state', detail, 'refused-in-state:restart_sequence:OPERATION')
            bad_strategy = cls.get('strategy_ok') is False
            bad_name = cls.get('name_ok') is False
            if bad_strategy or bad_name:
                self._probe('bad_parameter_call')
                expected = set()
                if bad_strategy:
                    expected.add(BAD_PARAM)
                if bad_name:
                    expected.add(BAD_NAME)
                if fault not in expected:
                    self.violate('parameter-error', dict(detail, expected=sorted(expected)),
                                 'parameter-error:%s:%s' % (meth, 'strategy' if bad_strategy and not bad_name else 'name'))
            elif meth in MANAGED_ONLY and cls.get('managed') is False:
                self._probe('unmanaged_call')
                if fault != NOT_MANAGED:
                    self.violate('not-managed', detail, 'not-managed:%s' % meth)
        if fault in REJECTIONS:
            self._probe('rejected_call')
            with frozen(sim, inst):
                after = full_snapshot(inst)
            d = diff(info['snapshot'], after)
            if d or pushed:
                self.violate('rejected-with-effect', dict(detail, changes=d, pushed=pushed),
                             'rejected-with-effect:%s:%s' % (meth, fault))
