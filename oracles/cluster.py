"""C01 (Master convergence, Master-only automatic actions) and C08 (return to OPERATION)."""
from supvsim.scenario import Observer, frozen
from supvsim.kernel import US

WORKING = ('DISTRIBUTION', 'OPERATION', 'CONCILIATION')


def effective_options(config):
    sv = config['supvisors']
    synchro = list(sv.get('synchro_options', ['STRICT', 'TIMEOUT', 'CORE']))
    core = list(sv.get('core_identifiers') or [])
    if not core and 'CORE' in synchro:
        synchro.remove('CORE')
    strategy = sv.get('supvisors_failure_strategy', 'CONTINUE')
    if 'TIMEOUT' in synchro:
        strategy = 'CONTINUE'
    return synchro, core, strategy


def view(sim, inst):
    """ What a user sees on one instance (clock frozen). """
    with frozen(sim, inst):
        state = inst.rpcif.get_supvisors_state()
        master = inst.rpcif.get_master_identifier().get('identifier', '')
        infos = {i['identifier']: i['statename'] for i in inst.rpcif.get_all_instances_info()}
    return state, master, infos


def components(sim):
    """ Maximal sets of live instances, pairwise connectable both ways, none seeing another ISOLATED.
    Returns (list of components, clean) where clean is False when reachability is not transitive. """
    live = [i for i in sim.instances.values() if i.alive and i.supvisors is not None]
    views = {i.nick: view(sim, i) for i in live}
    adj = {i.nick: set() for i in live}
    for a in live:
        for b in live:
            if a is b:
                continue
            if not (sim.connectable(a.nick, b.nick) and sim.connectable(b.nick, a.nick)):
                continue
            if views[a.nick][2].get(b.identifier) == 'ISOLATED' or views[b.nick][2].get(a.identifier) == 'ISOLATED':
                continue
            adj[a.nick].add(b.nick)
    seen, comps, clean = set(), [], True
    for n in sorted(adj):
        if n in seen:
            continue
        comp, stack = set(), [n]
        while stack:
            x = stack.pop()
            if x in comp:
                continue
            comp.add(x)
            stack.extend(adj[x] - comp)
        seen |= comp
        for x in comp:
            if adj[x] | {x} != comp:
                clean = False
        comps.append(sorted(comp))
    return comps, clean, views


def one_way_neighbour(sim, comp, views):
    """ A live outsider that reaches a member one way only keeps flapping CHECKING/FAILED in that member's view:
    membership never stops changing, the premise of C01/C08 is not met. """
    for inst in sim.instances.values():
        if not inst.alive or inst.supvisors is None or inst.nick in comp:
            continue
        for n in comp:
            member = sim.instances[n]
            a, b = sim.connectable(inst.nick, n), sim.connectable(n, inst.nick)
            if a != b:
                if views[n][2].get(inst.identifier) == 'ISOLATED' or \
                        views[inst.nick][2].get(member.identifier) == 'ISOLATED':
                    continue
                return True
    return False


def gen_identifier(sim, nick):
    inst = sim.instances.get(nick)
    if inst is not None:
        return inst.identifier
    from supvsim import gen
    return gen.identifier_of(sim.config, nick)


def sync_satisfiable(config, comp):
    """ Can the members of this component leave SYNCHRONIZATION and stay out of it (DESIGN section 6, C08)? """
    synchro, core, strategy = effective_options(config)
    if 'TIMEOUT' in synchro:
        return True
    all_nicks = {s['nick'] for s in config['instances']}
    if 'USER' in synchro:
        return False  # needs a user action: no claim
    if 'CORE' in synchro:
        return set(core) <= set(comp)
    return set(comp) == all_nicks


def rule_master(config, comp):
    _, core, _ = effective_options(config)
    core_in = [n for n in core if n in comp]
    return min(core_in) if core_in else min(comp)


class _FalseFailureWatch:
    """ Last time a live, reachable peer was declared FAILED by somebody: with a slow network (head-of-line blocking in a
    proxy queue, ticks delayed beyond inactivity_ticks) the failure detection keeps firing without any injected fault;
    membership is then still changing and neither convergence nor liveness is claimed at that instant. """

    def _watch_init(self):
        self._prev_states = {}
        self.last_failed_us = -10**12
        self.false_failures = []   # (t_us, observer nick, peer identifier)

    def _watch(self, sim, inst):
        if not inst.alive or inst.supvisors is None:
            return
        key = (inst.nick, inst.incarnation)
        cur = {i: st.state.name for i, st in inst.supvisors.context.instances.items()}
        prev = self._prev_states.get(key)
        self._prev_states[key] = cur
        if prev is None:
            return
        for ident, state in cur.items():
            # (FAILED and its invalidation to STOPPED / ISOLATED usually happen in one handler)
            if state in ('FAILED', 'STOPPED', 'ISOLATED') and prev.get(ident) in ('RUNNING', 'CHECKED'):
                peer = sim.inst_by_identifier(ident)
                if peer is not None and peer.alive:
                    self.last_failed_us = sim.now_us
                    self.false_failures.append((sim.now_us, inst.nick, ident))


class MasterConvergence(Observer, _FalseFailureWatch):
    """ C01. Final agreement per component; Master kept; cold-start rule; Master-only automatic requests. """
    prop = 'C01'

    def __init__(self, user_ops=False, min_quiet=120.0):
        super().__init__()
        self.user_ops = user_ops
        self.min_quiet = min_quiet
        self.probes = {}
        self.disturb_us = {}   # nick -> last time this instance was disturbed (fault touching it)
        self.global_disturb_us = 0
        self.samples = []      # (t_us, {nick: declared master nick or ''})
        self.last_self_master = {}
        self.declared = {}
        self.forced_master = {}
        self.saw_failed = False
        self._watch_init()

    def _probe(self, name):
        self.probes[name] = self.probes.get(name, 0) + 1

    def on_plan_item(self, item, fired):
        if not fired:
            return
        kind = item['kind']
        now = self.sim.now_us
        # the effects of a cut outlast its heal: a peer whose ticks were missed is declared FAILED up to
        # inactivity_ticks (+ margin) local ticks later, hence a settle time after every network event
        settle = int((self.run.config['supvisors'].get('inactivity_ticks', 2) + 3) * 5 * US)
        if kind in ('partition', 'heal', 'clock_jump'):
            self.global_disturb_us = max(self.global_disturb_us, now + settle)
        elif kind == 'slow':
            self.global_disturb_us = now + int(item['d'] * US)
        elif kind in ('crash', 'restart'):
            self.disturb_us[item['inst']] = now + int(item.get('delay', 0) * US)
        elif kind == 'stall':
            self.disturb_us[item['inst']] = now + int(item['d'] * US)
        elif kind == 'rpc' and item['method'] in ('supvisors.restart', 'supvisors.shutdown', 'supvisors.end_sync'):
            self.global_disturb_us = now

    def on_publication(self, sim, inst, ptype, body):
        """ Election rule, judged from the elector's own view at the instant it declares a Master. """
        from supvisors.ttypes import PublicationHeaders
        if ptype != PublicationHeaders.STATE:
            return
        key = (inst.nick, inst.incarnation)
        new = body['master_identifier']
        old = self.declared.get(key, '')
        if new == old:
            return
        self.declared[key] = new
        if not new:
            return
        if sim.now_us - self.forced_master.get(inst.nick, -10**12) < 2 * US:
            return  # end_sync(master): the user's choice
        with frozen(sim, inst):
            modes = {m['identifier']: m for m in inst.rpcif.get_all_instances_state_modes()}
        own = modes[inst.identifier]
        running = {i for i, st in own['instance_states'].items() if st == 'RUNNING'}
        declared = set()
        for ident in running:
            d = old if ident == inst.identifier else modes[ident]['master_identifier']
            if d:
                declared.add(d)
        self._probe('election_decision')
        detail = {'inst': inst.nick, 'chosen': new, 'previous': old, 'running': sorted(running),
                  'declared': sorted(declared), 'fsm': body['fsm_statename']}
        if body['fsm_statename'] == 'SYNCHRONIZATION':
            # accept_master (USER option): any Master already declared by a RUNNING instance
            if new not in declared:
                self.violate('accept-master', detail, 'accept-master-not-declared')
            return
        cands = {d for d in declared if d in running} or running
        nick = lambda i: sim.by_identifier.get(i, i)   # noqa
        core = [gen_identifier(sim, n) for n in effective_options(self.run.config)[1]]
        pool = [c for c in core if c in cands] or sorted(cands)
        expected = min(pool, key=nick) if pool else None
        if expected is not None and new != expected:
            self.violate('election-rule', dict(detail, expected=expected, candidates=sorted(cands)), 'election-rule')

    def before_operation(self, item, fired):
        if fired and item['method'] == 'supvisors.end_sync' and item.get('args') and item['args'][0]:
            self.forced_master[item['inst']] = self.sim.now_us

    def on_request(self, sim, inst, identifier, rtype, body):
        from supvisors.ttypes import RequestHeaders
        if self.user_ops:
            return
        if rtype in (RequestHeaders.START_PROCESS, RequestHeaders.STOP_PROCESS):
            with frozen(sim, inst):
                master = inst.rpcif.get_master_identifier().get('identifier', '')
            self._probe('automatic_request')
            if master != inst.identifier:
                sig = 'non-master-action:%s' % rtype.name
                # specific history of the recorded finding: the jobs were created while the instance declared itself
                # Master in ELECTION (crash of a process with an application-level strategy) and go on after it has
                # adopted another Master without re-entering ELECTION (jobs are only aborted on entering ELECTION)
                last_self = self.last_self_master.get((inst.nick, inst.incarnation))
                fsm_state = inst.supvisors.fsm.state.name
                if last_self is not None and sim.now_us - last_self[0] < 60 * US and last_self[1] == 'ELECTION':
                    sig = 'non-master-action:jobs-created-as-self-declared-master-in-ELECTION'
                self.violate('non-master-action', {'inst': inst.nick, 'declared_master': master, 'fsm': fsm_state,
                                                   'request': rtype.name, 'body': list(body or ())}, sig)

    def after_event(self, sim, inst, kind):
        self._watch(sim, inst)
        if inst.alive and inst.supvisors is not None and inst.supvisors.state_modes.is_master():
            self.last_self_master[(inst.nick, inst.incarnation)] = (sim.now_us, inst.supvisors.fsm.state.name)
        if inst.alive and inst.supvisors is not None and not self.saw_failed:
            if any(st.state.name == 'FAILED' for st in inst.supvisors.context.instances.values()):
                self.saw_failed = True
        # sample the declared masters at most every 2 simulated seconds
        if self.samples and sim.now_us - self.samples[-1][0] < 2 * US:
            return
        decl, fsm = {}, {}
        for i in sim.instances.values():
            if i.alive and i.supvisors is not None:
                ident = i.supvisors.state_modes.master_identifier
                decl[i.nick] = sim.by_identifier.get(ident, ident) if ident else ''
                fsm[i.nick] = i.supvisors.fsm.state.name
        self.samples.append((sim.now_us, decl, fsm))

    def finish(self):
        sim, config = self.sim, self.run.config
        if sim.aborted:
            return
        quiet_s = (sim.now_us - self.run.t_faults_end_us) / US
        if quiet_s < self.min_quiet + config['supvisors'].get('synchro_timeout', 15):
            self._probe('short_quiesce_skipped')
            return
        if (sim.now_us - self.last_failed_us) / US < 90 and self.last_failed_us > self.run.t_faults_end_us + 60 * US:
            # a live peer was declared FAILED long after the last injected fault: the network is too slow for the
            # configured inactivity_ticks, membership is still changing
            self._probe('membership_still_changing_skipped')
            return
        comps, clean, views = components(sim)
        if not clean:
            self._probe('non_transitive_partition_skipped')
            return
        synchro, core, strategy = effective_options(config)
        for comp in comps:
            if strategy == 'SHUTDOWN':
                self._probe('skipped_shutdown_strategy')
                continue
            states = {n: views[n][0]['fsm_statename'] for n in comp}
            if any(s in ('RESTARTING', 'SHUTTING_DOWN', 'FINAL') for s in states.values()):
                self._probe('skipped_ending')
                continue
            if not sync_satisfiable(config, comp):
                self._probe('skipped_sync_not_satisfiable')
                continue
            if one_way_neighbour(sim, comp, views):
                self._probe('skipped_one_way_neighbour')
                continue
            self._probe('component_checked')
            if len(comp) > 1:
                self._probe('component_multi')
            masters = {n: views[n][1] for n in comp}
            idents = {sim.instances[n].identifier: n for n in comp}
            distinct = set(masters.values())
            detail = {'component': comp, 'masters': masters, 'states': states}
            if len(distinct) != 1:
                self.violate('disagreement', detail, 'final-disagreement')
                continue
            m_ident = distinct.pop()
            if not m_ident:
                self.violate('no-master', detail, 'final-no-master')
                continue
            if m_ident not in idents:
                self.violate('master-outside-component', detail, 'final-master-outside')
                continue
            m_nick = idents[m_ident]
            for n in comp:
                if views[n][2].get(m_ident) != 'RUNNING':
                    self.violate('master-not-seen-running', dict(detail, observer=n, seen=views[n][2].get(m_ident)),
                                 'final-master-not-running')
            # Master kept when instances join (judged in join-only runs, see _check_kept_on_join)
            self._check_kept_on_join(comp, m_nick, detail)
            # cold-start rule
            self._check_rule(comp, m_nick, detail)

    def _check_kept_on_join(self, comp, m_final, detail):
        """ "A running Master that is the only one recognised is kept when instances join". Judged in runs whose plan
        holds nothing but boots and slow links (no membership change other than joins, no failure ever declared): the
        Master agreed by everybody for 15 s before the last join, in a working state and alive to the end, is the final
        Master. """
        sim = self.sim
        applied = [(t, item) for t, item, fired in self.run.applied if fired]
        if any(item['kind'] not in ('boot', 'slow') for _t, item in applied) or self.saw_failed:
            return
        boots = sorted(t for t, item in applied if item['kind'] == 'boot')
        if len(boots) < 2 or boots[-1] < 40 * US:
            return
        t_join = boots[-1]
        window = [(t, decl, fsm) for t, decl, fsm in self.samples if t_join - 16 * US <= t <= t_join - 1 * US]
        if len(window) < 4:
            return
        established = None
        for t, decl, fsm in window:
            named = {m for m in decl.values()}
            if len(named) != 1 or '' in named:
                return
            m = next(iter(named))
            if decl.get(m) != m or fsm.get(m) not in WORKING or (established is not None and m != established):
                return
            established = m
        inst = sim.instances.get(established)
        if inst is None or not inst.alive or inst.incarnation != 0 or established not in comp:
            return
        self._probe('kept_on_join_premise')
        if m_final != established:
            self.violate('master-not-kept', dict(detail, established=established, joined_at=t_join / US, final=m_final),
                         'established-master-deposed-by-joiner')

    def _check_kept(self, comp, m_final, detail):
        sim = self.sim
        for t_us, decl, fsm in self.samples:
            if t_us <= self.global_disturb_us:
                continue
            named = {m for n, m in decl.items() if m}
            if len(named) != 1:
                continue
            m = next(iter(named))
            if m not in comp or decl.get(m) != m:
                continue
            # an *established* Master: it has completed its election (the code only lets it reach a working state
            # once every instance it sees RUNNING declares it)
            if fsm.get(m) not in WORKING:
                continue
            if t_us <= self.disturb_us.get(m, -1):
                continue
            inst = sim.instances.get(m)
            if inst is None or not inst.alive or inst.boot_us > t_us:
                continue
            # every declarer must be in the final component or dead by now (else a split view is possible)
            self._probe('kept_premise')
            if m != m_final:
                self.violate('master-not-kept', dict(detail, recognised=m, at_us=t_us, final=m_final),
                             'master-not-kept')
            return

    def _check_rule(self, comp, m_final, detail):
        config = self.run.config
        synchro, core, strategy = effective_options(config)
        if set(synchro) - {'STRICT', 'LIST'}:
            return
        # no fault at all, and nothing but boots in the plan
        if any(item['kind'] != 'boot' for _t, item, fired in self.run.applied if fired):
            return
        all_nicks = sorted(s['nick'] for s in config['instances'])
        if comp != all_nicks:
            return
        self._probe('rule_premise')
        expected = rule_master(config, comp)
        if m_final != expected:
            self.violate('rule', dict(detail, expected=expected, final=m_final), 'cold-start-rule')


def diagnose(sim, comp, views):
    """ Observable mechanism behind a component that did not converge: used to make signatures specific. """
    idents = {sim.instances[n].identifier: n for n in comp}
    masters = {views[n][1] for n in comp}
    if len(masters) > 1:
        return 'master-disagreement'
    m = next(iter(masters))
    if not m:
        return 'no-master'
    if m not in idents:
        return 'master-outside-component'
    running_sets = set()
    for n in comp:
        states = views[n][0]['instance_states'] if 'instance_states' in views[n][0] else views[n][2]
        for ident, st in views[n][2].items():
            if ident in idents and st in ('CHECKING', 'CHECKED', 'FAILED'):
                return 'peer-in-transitional-state:%s' % st
            if ident in idents and st in ('STOPPED', 'ISOLATED'):
                return 'member-seen-%s' % st
        running_sets.add(tuple(sorted(i for i, st in views[n][2].items() if st == 'RUNNING')))
    if len(running_sets) > 1:
        return 'running-sets-differ'
    # everybody agrees on a Master that is itself parked in CONCILIATION (conflicts left to the user): a Slave that
    # went back to ELECTION cannot follow it (no DISTRIBUTION -> CONCILIATION edge), recorded finding
    if views[idents[m]][0]['fsm_statename'] == 'CONCILIATION':
        return 'slave-cannot-rejoin-master-in-CONCILIATION'
    return 'other'


class Liveness(Observer, _FalseFailureWatch):
    """ C08: at the end of the quiesce phase every member of a satisfiable component is in its Master's state,
    OPERATION (CONCILIATION with USER and a remaining conflict), no job pending. """
    prop = 'C08'

    def __init__(self, min_quiet=200.0):
        super().__init__()
        self.probes = {}
        self.min_quiet = min_quiet
        self._watch_init()

    def _probe(self, name):
        self.probes[name] = self.probes.get(name, 0) + 1

    def after_event(self, sim, inst, kind):
        self._watch(sim, inst)

    def finish(self):
        sim, config = self.sim, self.run.config
        if sim.aborted:
            return
        if (sim.now_us - self.run.t_faults_end_us) / US < self.min_quiet + config['supvisors'].get('synchro_timeout', 15):
            self._probe('short_quiesce_skipped')
            return
        if (sim.now_us - self.last_failed_us) / US < 90 and self.last_failed_us > self.run.t_faults_end_us + 60 * US:
            # disturbances have NOT stopped: the failure detection keeps firing on live peers (network slower than the
            # configured inactivity_ticks allows)
            self._probe('membership_still_changing_skipped')
            return
        comps, clean, views = components(sim)
        if not clean:
            self._probe('non_transitive_partition_skipped')
            return
        synchro, core, strategy = effective_options(config)
        quiet_s = (sim.now_us - self.run.t_faults_end_us) / US
        for comp in comps:
            if strategy == 'SHUTDOWN':
                self._probe('skipped_shutdown_strategy')
                continue
            states = {n: views[n][0]['fsm_statename'] for n in comp}
            if any(s in ('RESTARTING', 'SHUTTING_DOWN', 'FINAL') for s in states.values()):
                self._probe('skipped_ending')
                continue
            if not sync_satisfiable(config, comp):
                self._probe('skipped_sync_not_satisfiable')
                continue
            if one_way_neighbour(sim, comp, views):
                self._probe('skipped_one_way_neighbour')
                continue
            self._probe('component_checked')
            detail = {'component': comp, 'states': states, 'quiet_s': round(quiet_s, 1),
                      'masters': {n: views[n][1] for n in comp}}
            conc_user = config['supvisors'].get('conciliation_strategy') == 'USER'
            for n in comp:
                st = states[n]
                jobs = views[n][0]['starting_jobs'] or views[n][0]['stopping_jobs']
                if st in ('OFF', 'SYNCHRONIZATION', 'ELECTION', 'DISTRIBUTION'):
                    cause = diagnose(sim, comp, views)
                    self.violate('parked', dict(detail, inst=n, state=st, cause=cause),
                                 'parked:%s:%s' % (st, cause))
                    break
                if st == 'CONCILIATION':
                    with frozen(sim, sim.instances[n]):
                        conflicts = sim.instances[n].rpcif.get_conflicts()
                    if not (conc_user and conflicts):
                        cause = diagnose(sim, comp, views)
                        # recorded finding: a conflict that only exists in a stale view (C12 findings): the copy is asked
                        # to stop (NOT_RUNNING answered, time-out, forced STOPPED) and seen again at the next evaluation
                        from oracles.agreement import truth
                        phantom = []
                        for c in conflicts:
                            ns = '%s:%s' % (c['application_name'], c['process_name'])
                            for ident in c['identifiers']:
                                peer = sim.inst_by_identifier(ident)
                                if peer is None or not peer.alive or peer.sd is None \
                                        or truth(peer).get(ns) not in ('STARTING', 'BACKOFF', 'RUNNING', 'STOPPING'):
                                    phantom.append((ns, ident))
                        if phantom:
                            cause = 'conflict-with-a-copy-that-only-exists-in-a-stale-view'
                        self.violate('parked', dict(detail, inst=n, state=st, conflicts=len(conflicts), cause=cause,
                                                    phantom=phantom),
                                     'parked:CONCILIATION:%s' % cause)
                        break
                if jobs:
                    self.violate('jobs-pending', dict(detail, inst=n, starting=views[n][0]['starting_jobs'],
                                                      stopping=views[n][0]['stopping_jobs']), 'jobs-pending')
                    break
            else:
                if len(set(states.values())) != 1:
                    self.violate('state-disagreement', detail, 'state-disagreement')
                else:
                    self._probe('component_ok_%s' % next(iter(states.values())))
