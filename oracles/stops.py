"""C09: stop sequences are honoured; restart / shutdown is orderly and reaches everyone."""
from supvsim.scenario import Observer, frozen
from supvsim.kernel import US
from oracles.agreement import truth

RUNNING_STATES = ('STARTING', 'BACKOFF', 'RUNNING')
BUSY = RUNNING_STATES + ('STOPPING',)


def _rule_of(config, ns):
    """ The application and program rules of a namespec in the GENERATED rules document (not Supvisors' objects). """
    app_name, _, pname = ns.partition(':')
    for app in config.get('rules', {}).get('applications', []):
        if app.get('name') != app_name:
            continue
        for prog in app.get('programs', []):
            if prog.get('name') == pname or (prog.get('pattern') and prog['pattern'] in pname):
                return app, prog
        return app, None
    return None, None


def proc_stop_seq(config, ns):
    """ Explicit stop_sequence if present, else the start_sequence, else 0 (documented inheritance). """
    _app, prog = _rule_of(config, ns)
    if prog is None:
        return 0
    if prog.get('stop_sequence') is not None:
        return prog['stop_sequence']
    return prog.get('start_sequence') or 0


def app_stop_seq(config, app_name):
    app, _ = _rule_of(config, app_name + ':')
    if app is None:
        return 0
    if app.get('stop_sequence') is not None:
        return app['stop_sequence']
    return app.get('start_sequence') or 0



from oracles.cluster import _FalseFailureWatch  # noqa: E402


class StopRequests(Observer, _FalseFailureWatch):
    prop = 'C09'

    def __init__(self):
        super().__init__()
        self.probes = {}
        self.requests = []       # dict(s, inc, ns, app, target, t_us, seq)
        self.handler_reqs = {}   # (nick, inc) -> requests pushed in the handler in progress
        self.start_requests = {}  # (nick, inc, ns, target) -> [t_us] start requests of this instance
        self.forced_stopped = {}  # (nick, inc, ns) -> t_us (stop given up on time-out)
        self.orders = []         # supervisor.restart / shutdown received: dict(inst, inc, method, t_us, src)
        self.final_pub = {}      # (nick, inc) -> t_us of FINAL publication
        self.ending = None       # dict(t_us, method, inst) first accepted restart/shutdown operation
        self.alive_at_order = None
        self.dropped_state = {}
        self.ending_view = {}
        self.ending_view_t = {}
        self._watch_init()

    def _probe(self, name):
        self.probes[name] = self.probes.get(name, 0) + 1

    def _truly(self, ns, states=BUSY):
        out = set()
        for i in self.sim.instances.values():
            if i.alive and i.sd is not None and truth(i).get(ns) in states:
                out.add(i.identifier)
        return out

    def _born(self, ns, ident):
        p = self.sim.inst_by_identifier(ident)
        if p is None:
            return 10**18
        born = [c.born_us for c in p.children.values() if c.alive and c.namespec == ns]
        return max(born) if born else 10**18

    # --- stop requests ---------------------------------------------------------------------------
    def on_request(self, sim, s, identifier, rtype, body):
        from supvisors.ttypes import RequestHeaders
        if rtype == RequestHeaders.START_PROCESS:
            self.start_requests.setdefault((s.nick, s.incarnation, body[0], identifier), []).append(sim.now_us)
        if rtype != RequestHeaders.STOP_PROCESS:
            return
        ns = body[0]
        app_name, pname = ns.split(':')
        ctx = s.supvisors.context
        app = ctx.applications.get(app_name)
        proc = app.processes.get(pname) if app else None
        if proc is None:
            return
        self._probe('stop_request')
        seq = proc_stop_seq(sim.config, ns)
        detail = {'requester': s.nick, 'target': identifier, 'process': ns, 'stop_sequence': seq}
        with frozen(sim, s):
            shown = proc.serial()
        if identifier not in shown['identifiers']:
            self.violate('stop-where-not-running', dict(detail, identifiers=shown['identifiers']),
                         'stop-where-not-running')
        # S has just declared a LIVE peer lost (network slower than inactivity_ticks allows, no injected cut): what runs
        # there left its view as FATAL and came back with the next hand-shake; its plan was built on the other view
        if not sim.cuts and any(o == s.nick and sim.now_us - t < 90 * US for t, o, _p in self.false_failures):
            self._probe('order_after_false_failure_skipped')
            rec = {'s': s.nick, 'inc': s.incarnation, 'ns': ns, 'app': app_name, 'target': identifier,
                   't_us': sim.now_us, 'seq': seq}
            self.requests.append(rec)
            self.handler_reqs.setdefault((s.nick, s.incarnation), []).append(rec)
            return
        # higher stop_sequence of the same application: not running / stopping any more (view of S and truth)
        for q in app.processes.values():
            if q is proc or proc_stop_seq(sim.config, q.namespec) <= seq:
                continue
            with frozen(sim, s):
                qs = q.serial()
            real = q.state_string()
            if real in BUSY and qs['identifiers']:
                where = self._truly(q.namespec) & set(qs['identifiers'])
                asked = {r['target'] for r in self.requests if r['s'] == s.nick and r['inc'] == s.incarnation
                         and r['ns'] == q.namespec and sim.now_us - r['t_us'] < 120 * US}
                # a copy that S has asked to stop must be stopped (or given up); a process S never asked to stop in
                # this plan was skipped; a copy that appeared after the plan was built is nobody's fault
                # a copy spawned after the stop request of S is a later start (concurrent start plan), not this plan's
                asked_at = {r['target']: r['t_us'] for r in self.requests if r['s'] == s.nick and r['inc'] == s.incarnation
                            and r['ns'] == q.namespec and sim.now_us - r['t_us'] < 120 * US}
                not_waited = {w for w in where & asked if self._born(q.namespec, w) <= asked_at.get(w, -1)}
                plan_t0 = min((r['t_us'] for r in self.requests if r['s'] == s.nick and r['inc'] == s.incarnation
                               and r['app'] == app_name and sim.now_us - r['t_us'] < 60 * US), default=sim.now_us)
                if s.supvisors.fsm.state.name in ('RESTARTING', 'SHUTTING_DOWN'):
                    # an ending plan is built for all the applications at once, when the state is entered
                    plan_t0 = min(plan_t0, self.ending_view_t.get((s.nick, s.incarnation), plan_t0))
                # ... and a copy whose first running event had not reached S when the plan was built (started by another
                # requester a moment earlier) is unknown to the plan
                skipped = {w for w in where if self._born(q.namespec, w) < plan_t0
                           and self._known_at(s, q.namespec, w, self._born(q.namespec, w), plan_t0)} if not asked else set()
                # given up on time-out: the forced STOPPED is applied locally before it is published (the next requests
                # leave in between), so the requester's own forced state is read too
                if (s.nick, s.incarnation, q.namespec) in self.forced_stopped or q.forced_state is not None:
                    not_waited = set()
                if not_waited or skipped:
                    kind = 'not-waited' if not_waited else 'skipped'
                    sig = 'higher-sequence-still-running:%s:%s' % (kind, real)
                    if kind == 'skipped' and all(
                            any(plan_t0 - 30 * US <= t <= plan_t0 and self._born(q.namespec, w) >= t
                                for t in self.start_requests.get((s.nick, s.incarnation, q.namespec, w), ()))
                            for w in skipped):
                        # recorded finding: the stop plan was built while a start request of this very instance was in
                        # flight (the copy was not yet known as running) and is not revised when the copy shows up
                        sig = 'higher-sequence-still-running:own-start-in-flight-when-stop-plan-built'
                    if real == 'STOPPING':
                        # recorded finding: a process already STOPPING (asked by another plan / requester, or by a plan
                        # of the same instance that was aborted) is skipped by process_job and not waited
                        sig = 'higher-sequence-still-running:process-already-STOPPING-not-waited'
                    self.violate('higher-sequence-still-running',
                                 dict(detail, other=q.namespec, other_sequence=proc_stop_seq(sim.config, q.namespec), other_state=real,
                                      where=sorted(where), asked=sorted(asked), kind=kind), sig)
                    break
        # between applications, in an ending plan driven by this instance
        state = s.supvisors.fsm.state.name
        if state in ('RESTARTING', 'SHUTTING_DOWN'):
            a_seq = app_stop_seq(sim.config, app.application_name)
            for other in ctx.applications.values():
                if other is app or app_stop_seq(sim.config, other.application_name) <= a_seq:
                    continue
                planned = self.ending_view.get((s.nick, s.incarnation))
                busy = [q.namespec for q in other.processes.values()
                        if q.state_string() in BUSY and q.running_identifiers
                        and self._truly(q.namespec) & set(q.running_identifiers)
                        and (s.nick, s.incarnation, q.namespec) not in self.forced_stopped
                        and q.forced_state is None
                        and (planned is None or any((q.namespec, i) in planned for i in q.running_identifiers))]
                if busy and all(other.processes[b.split(':')[1]].state_string() == 'STOPPING' for b in busy):
                    self.violate('higher-application-still-running',
                                 dict(detail, app_stop_sequence=a_seq, other=other.application_name,
                                      other_sequence=app_stop_seq(sim.config, other.application_name), busy=busy),
                                 'higher-application-still-running:process-already-STOPPING-not-waited')
                    break
                if busy:
                    self.violate('higher-application-still-running',
                                 dict(detail, app_stop_sequence=a_seq, other=other.application_name,
                                      other_sequence=app_stop_seq(sim.config, other.application_name), busy=busy),
                                 'higher-application-still-running')
                    break
        rec = {'s': s.nick, 'inc': s.incarnation, 'ns': ns, 'app': app_name, 'target': identifier,
               't_us': sim.now_us, 'seq': seq}
        self.requests.append(rec)
        self.handler_reqs.setdefault((s.nick, s.incarnation), []).append(rec)

    def _known_at(self, s, ns, ident, born_us, t_us):
        """ Had a running-like event of this copy (born at born_us) been delivered to S by t_us? """
        sim = self.sim
        if ident == s.identifier:
            return True
        src = sim.by_identifier.get(ident)
        group, _, name = ns.partition(':')
        for r in reversed(sim.wire):
            if r['t_us'] > t_us:
                continue
            if r['t_us'] < born_us:
                break
            if r['dst'] == s.nick and r['src'] == src and r.get('header') == 1 and r.get('outcome') == 'ok' \
                    and r.get('comm_type') == 'SupvisorsPublication' and isinstance(r.get('body'), dict) \
                    and r['body'].get('group') == group and r['body'].get('name') == name \
                    and r['body'].get('state') in (10, 20, 30):
                return True
        return False

    def on_publication(self, sim, inst, ptype, body):
        from supvisors.ttypes import PublicationHeaders
        if ptype == PublicationHeaders.PROCESS and body.get('forced') and body.get('state') == 0:
            ns_f = '%s:%s' % (body['group'], body['name'])
            self.forced_stopped[(inst.nick, inst.incarnation, ns_f)] = sim.now_us
            # "unless its stop was given up on timeout": a process that is STOPPING is given stopwaitsecs by its Supervisor;
            # a give-up earlier than that after the request is not a time-out
            if 'STOPPED event not received in time' in str(body.get('spawnerr')):
                from supvsim.puppet import program_of
                prog, _i = program_of(sim.config, ns_f)
                mine = [r for r in self.requests if r['s'] == inst.nick and r['inc'] == inst.incarnation
                        and r['ns'] == ns_f and r['target'] == body.get('identifier')]
                if prog is not None and mine:
                    elapsed = sim.now_us - mine[-1]['t_us']
                    self._probe('give_up_checked')
                    if elapsed < (prog.get('stopwaitsecs', 10) - 1.0) * US:
                        self.violate('premature-give-up', {'requester': inst.nick, 'process': ns_f,
                                                           'target': body.get('identifier'), 'elapsed_s': elapsed / US,
                                                           'stopwaitsecs': prog.get('stopwaitsecs', 10)},
                                     'stop-given-up-before-stopwaitsecs')
        elif ptype == PublicationHeaders.STATE and body['fsm_statename'] in ('RESTARTING', 'SHUTTING_DOWN') \
                and body['master_identifier'] == inst.identifier:
            # what the Master sees running when the ending plan is built
            view = set()
            for app in inst.supvisors.context.applications.values():
                for q in app.processes.values():
                    if q.state_string() in BUSY:
                        for ident in q.running_identifiers:
                            view.add((q.namespec, ident))
            self.ending_view.setdefault((inst.nick, inst.incarnation), view)   # the first publication only
            self.ending_view_t.setdefault((inst.nick, inst.incarnation), sim.now_us)
        elif ptype == PublicationHeaders.STATE and body['fsm_statename'] == 'FINAL':
            key = (inst.nick, inst.incarnation)
            if key not in self.final_pub:
                self.final_pub[key] = sim.now_us
                if body['master_identifier'] == inst.identifier:
                    self._check_master_final(sim, inst)

    def after_event(self, sim, inst, kind):
        self._watch(sim, inst)
        key = (inst.nick, inst.incarnation)
        reqs = self.handler_reqs.pop(key, None)
        if not reqs or not inst.alive or inst.supvisors is None:
            return
        # processes sharing a stop_sequence are asked together
        ctx = inst.supvisors.context
        for app_name in {r['app'] for r in reqs}:
            app = ctx.applications.get(app_name)
            if app is None:
                continue
            levels = {r['seq'] for r in reqs if r['app'] == app_name}
            for q in app.processes.values():
                if proc_stop_seq(sim.config, q.namespec) not in levels:
                    continue
                if q.state_string() not in RUNNING_STATES:
                    continue
                if any(r['ns'] == q.namespec and r['s'] == inst.nick and r['inc'] == inst.incarnation
                       and sim.now_us - r['t_us'] < 60 * US for r in self.requests):
                    # some copies were asked: another copy is one that appeared after the plan was built
                    asked_some = True
                else:
                    asked_some = False
                for ident in q.running_identifiers:
                    if asked_some:
                        break
                    asked = any(r['ns'] == q.namespec and r['target'] == ident and r['s'] == inst.nick
                                and r['inc'] == inst.incarnation and sim.now_us - r['t_us'] < 60 * US
                                for r in self.requests)
                    plan_t0 = min((r['t_us'] for r in self.requests if r['s'] == inst.nick and r['inc'] == inst.incarnation
                                   and r['app'] == app_name and sim.now_us - r['t_us'] < 60 * US), default=sim.now_us)
                    # an ending plan (restart / shutdown) is built for all the applications at once, when the state is entered
                    planned = self.ending_view.get(key)
                    if planned is not None and inst.supvisors.fsm.state.name in ('RESTARTING', 'SHUTTING_DOWN'):
                        plan_t0 = min(plan_t0, self.ending_view_t.get(key, plan_t0))
                    own_start = any(plan_t0 - 30 * US <= t <= plan_t0 for t in
                                    self.start_requests.get((inst.nick, inst.incarnation, q.namespec, ident), ()))
                    unseen = planned is not None and (q.namespec, ident) not in planned \
                        and inst.supvisors.fsm.state.name in ('RESTARTING', 'SHUTTING_DOWN')
                    if not asked and unseen and ident in self._truly(q.namespec, RUNNING_STATES):
                        # the copy was not known as running when the ending plan was built (its first event was in flight)
                        if own_start:
                            self.violate('same-sequence-not-together',
                                         {'requester': inst.nick, 'process': q.namespec, 'on': ident,
                                          'stop_sequence': proc_stop_seq(sim.config, q.namespec)},
                                         'same-sequence-not-together:own-start-in-flight-when-stop-plan-built')
                        else:
                            self._probe('copy_unknown_at_plan_time')
                        continue
                    if not asked and ident in self._truly(q.namespec, RUNNING_STATES) \
                            and self._born(q.namespec, ident) < plan_t0:
                        if not self._known_at(inst, q.namespec, ident, self._born(q.namespec, ident), plan_t0):
                            # spawned before the plan but its first event had not reached the requester yet (start asked by
                            # another instance a moment earlier): unknown to the plan
                            self._probe('copy_unknown_at_plan_time')
                            continue
                        self._probe('same_level_checked')
                        self.violate('same-sequence-not-together',
                                     {'requester': inst.nick, 'process': q.namespec, 'on': ident,
                                      'stop_sequence': proc_stop_seq(sim.config, q.namespec),
                                      'asked': sorted((r['ns'], r['target']) for r in reqs)},
                                     'same-sequence-not-together')
                    elif not asked and ident in self._truly(q.namespec, RUNNING_STATES) and any(
                            plan_t0 - 30 * US <= t <= plan_t0 and self._born(q.namespec, ident) >= t
                            for t in self.start_requests.get((inst.nick, inst.incarnation, q.namespec, ident), ())):
                        # recorded finding (same mechanism as at process level)
                        self.violate('same-sequence-not-together',
                                     {'requester': inst.nick, 'process': q.namespec, 'on': ident,
                                      'stop_sequence': proc_stop_seq(sim.config, q.namespec)},
                                     'same-sequence-not-together:own-start-in-flight-when-stop-plan-built')
                        return

    # --- restart / shutdown ----------------------------------------------------------------------
    def before_operation(self, item, fired):
        pass

    def on_plan_item(self, item, fired):
        if item['kind'] == 'rpc' and item['method'] in ('supvisors.restart', 'supvisors.shutdown') and self.sim.oplog:
            rec = self.sim.oplog[-1]
            if rec['method'] == item['method'] and rec.get('result') is True and self.ending is None:
                acc = self.sim.instances.get(item['inst'])
                self.ending = {'t_us': rec['t_us'], 'method': item['method'], 'inst': item['inst'],
                               'inc': acc.incarnation if acc is not None else None,
                               'was_master': bool(acc is not None and acc.alive and acc.supvisors is not None
                                                  and acc.supvisors.state_modes.is_master())}
                # the instances that are part of Supvisors at that instant (a late comer still synchronising is not)
                self.alive_at_order = {(i.nick, i.incarnation) for i in self.sim.instances.values()
                                       if i.alive and i.supvisors is not None
                                       and i.supvisors.fsm.state.name in ('DISTRIBUTION', 'OPERATION', 'CONCILIATION',
                                                                          'RESTARTING', 'SHUTTING_DOWN')}
                self._probe('ending_operation_accepted')

    def on_proxy_drop(self, sim, inst, proxy, dropped):
        """ Messages still queued when a proxy is stopped are lost (the thread tests stop_event before each get). """
        from supvisors.internal_com.supervisorproxy import InternalEventHeaders
        for etype, (source, body) in dropped:
            if etype == InternalEventHeaders.PUBLICATION and body[0] == 7 and \
                    body[1].get('fsm_statename') in ('RESTARTING', 'SHUTTING_DOWN', 'FINAL'):
                self.dropped_state.setdefault(proxy.target_identifier, []).append(
                    (inst.nick, body[1]['fsm_statename'], sim.now_us))

    def on_wire(self, sim, rec):
        if rec['method'] in ('supervisor.restart', 'supervisor.shutdown') and rec['outcome'] in ('ok', 'fault'):
            self.orders.append({'inst': rec['dst'], 'inc': rec.get('dst_inc'), 'method': rec['method'],
                                't_us': rec['t_us'], 'src': rec['src'], 'outcome': rec['outcome']})

    def _check_master_final(self, sim, m):
        """ The Master leaves the ending state: everything it could stop is stopped (or given up on time-out). """
        self._probe('master_final')
        if not sim.cuts and any(o == m.nick and sim.now_us - t < 150 * US for t, o, _p in self.false_failures):
            self._probe('master_final_after_false_failure_skipped')
            return
        ctx = m.supvisors.context
        seen_running = {i for i, st in ctx.instances.items() if st.state.name == 'RUNNING'}
        left = []
        for app in ctx.applications.values():
            for q in app.processes.values():
                if (m.nick, m.incarnation, q.namespec) in self.forced_stopped:
                    continue
                where = self._truly(q.namespec, ('RUNNING',)) & seen_running & set(q.running_identifiers)
                # a process started after the ending plan was built (start request in flight) is not part of it
                planned = self.ending_view.get((m.nick, m.incarnation))
                if planned is not None:
                    where = {i for i in where if (q.namespec, i) in planned}
                if where:
                    left.append((q.namespec, sorted(where)))
        if left:
            # recorded finding: in an ending state any consistency failure (a CHECKED instance activated meanwhile has no
            # Master yet, several Masters ...) sends the Master to FINAL at once, with its stop jobs still in progress
            sig = 'final-before-stopped'
            if m.supvisors.stopper.in_progress():
                sig = 'final-before-stopped:ending-state-cut-short-with-stop-jobs-in-progress'
            self.violate('final-before-stopped', {'master': m.nick, 'left': left[:6]}, sig)

    def finish(self):
        sim = self.sim
        if sim.aborted or self.ending is None:
            return
        method = 'supervisor.' + self.ending['method'].split('.')[1]
        # the order was accepted by a non-Master instance that crashed before its relay to the Master was delivered: the
        # order died with it (the statement covers the loss of a non-Master DURING the ending phase, which never began)
        acc = sim.instances.get(self.ending['inst'])
        if not self.ending.get('was_master') and (acc is None or not acc.alive or acc.incarnation != self.ending.get('inc')):
            relayed = any(r['src'] == self.ending['inst'] and r['method'] == self.ending['method'] and r['via'] == 'proxy'
                          and r.get('outcome') in ('ok', 'fault') and r['t_us'] >= self.ending['t_us'] for r in sim.wire)
            if not relayed:
                self._probe('order_lost_with_crashed_relay')
                return
        # a live member declared lost by another live member during the ending phase (network slower than
        # inactivity_ticks allows, no injected cut): the Master no longer addresses the members it does not see RUNNING,
        # the members that lost the Master go back to ELECTION; the statement covers the loss of a non-Master only
        members = {n for n, _i in (self.alive_at_order or ())}
        idents = {sim.instances[n].identifier for n in members if n in sim.instances}
        if any(self.ending['t_us'] - 30 * US <= t <= self.ending['t_us'] + 150 * US and o in members and p in idents
               for t, o, p in self.false_failures) and not sim.cuts:
            fired_cuts = [1 for _t, item, fired in self.run.applied if fired and item['kind'] == 'partition'
                          and self.ending['t_us'] - 60 * US <= _t <= self.ending['t_us'] + 150 * US]
            if not fired_cuts:
                self._probe('ending_disturbed_by_false_failure_skipped')
                return
        # exactly one order per Supervisor incarnation
        count = {}
        for o in self.orders:
            if o['method'] == method:
                count[(o['inst'], o['inc'])] = count.get((o['inst'], o['inc']), 0) + 1
        twice = {k: n for k, n in count.items() if n > 1}
        if twice:
            self.violate('order-more-than-once', {'orders': {'%s#%s' % k: n for k, n in twice.items()}},
                         'order-more-than-once')
        # every instance alive at the order time ended (gone or rebooted), unless it crashed meanwhile
        if (sim.now_us - self.ending['t_us']) / US < 120:
            return
        for nick, inc in sorted(self.alive_at_order or ()):
            inst = sim.instances.get(nick)
            cur_same = inst is not None and inst.incarnation == inc and inst.alive
            if cur_same:
                # still the same incarnation alive: the order never reached it / it never finished
                with frozen(sim, inst):
                    state = inst.rpcif.get_supvisors_state()['fsm_statename']
                dropped = self.dropped_state.get(inst.identifier)
                sig = 'instance-not-ended:%s' % state
                # recorded finding: the order was accepted by a non-Master (state checked there) and its relay was
                # refused by the Master, which had meanwhile left the states in which it serves it (back to ELECTION on a
                # join): the acceptor only logs the fault, the user was answered True and nothing ends
                refused = [r for r in sim.wire if r['src'] == self.ending['inst'] and r['method'] == self.ending['method']
                           and r['via'] == 'proxy' and r.get('outcome') == 'fault' and r.get('fault') == 101
                           and r['t_us'] >= self.ending['t_us']]
                if refused and not any(o['method'] == method for o in self.orders):
                    sig = 'instance-not-ended:relayed-order-refused-by-master-that-left-its-state'
                if dropped and count.get((nick, inc), 0) == 0:
                    # recorded finding: the Master ended so fast that its proxies were stopped with the ending STATE
                    # publications to this instance still queued
                    sig = 'instance-not-ended:ending-state-publication-dropped-when-master-exits'
                self.violate('instance-not-ended', {'inst': nick, 'state': state, 'order': method,
                                                    'received': count.get((nick, inc), 0), 'dropped': dropped}, sig)
                break
        # an order is only sent once the Master has left the ending state
        for o in self.orders:
            if o['method'] != method or o['t_us'] < self.ending['t_us']:
                continue
            inst_final = self.final_pub.get((o['inst'], o['inc']))
            if inst_final is None or inst_final > o['t_us']:
                self.violate('order-before-final', {'inst': o['inst'], 'order_at': o['t_us'] / US,
                                                    'final_at': inst_final and inst_final / US},
                             'order-before-final')
                break
