"""C05: conflicts are detected and conciliated exactly as the strategy says."""
from supvsim.scenario import Observer, frozen
from supvsim.kernel import US

RUNNING_STATES = ('STARTING', 'BACKOFF', 'RUNNING')


class Conciliation(Observer):
    prop = 'C05'

    def __init__(self):
        super().__init__()
        self.probes = {}
        self.prev = {}       # (nick, inc) -> dict(state, master, conflicts, jobs, k)
        self.k = {}
        self.episodes = {}   # (nick, inc) -> current conciliation episode of a Master
        self.closed = []
        self.crashes = []    # t_us of unexpected child exits (they trigger running failure strategies of their own)

    def _probe(self, name):
        self.probes[name] = self.probes.get(name, 0) + 1

    def _conflicts(self, sim, inst):
        """ {ns: set(identifiers)} as get_conflicts shows it. """
        with frozen(sim, inst):
            try:
                infos = inst.rpcif.get_conflicts()
            except Exception:  # noqa
                infos = [p.serial() for p in inst.supvisors.context.conflicts()]
        return {'%s:%s' % (i['application_name'], i['process_name']): set(i['identifiers']) for i in infos}

    def on_publication(self, sim, inst, ptype, body):
        from supvisors.ttypes import PublicationHeaders
        key = (inst.nick, inst.incarnation)
        if ptype == PublicationHeaders.TICK:
            self.k[key] = body['sequence_counter']
            return
        if ptype == PublicationHeaders.PROCESS and body.get('forced') and key in self.episodes:
            # a stop of the episode given up on time-out ("once those stops are reported" does not hold for it)
            self.episodes[key].setdefault('given_up', set()).add('%s:%s' % (body['group'], body['name']))
        if ptype != PublicationHeaders.STATE:
            return
        state = body['fsm_statename']
        ep = self.episodes.get(key)
        if state == 'CONCILIATION' and ep is None and body['master_identifier'] == inst.identifier:
            conflicts = self._conflicts(sim, inst)
            strategy = inst.supvisors.options.conciliation_strategy.name
            self.episodes[key] = {'t0': sim.now_us, 'strategy': strategy, 'conflicts': conflicts,
                                  'copies': {(ns, i) for ns, ids in conflicts.items() for i in ids},
                                  'stops': [], 'starts': [], 'inst': inst.nick, 'born': self._born(sim, conflicts),
                                  'seen': self._seen(inst, conflicts)}
            self._probe('conciliation_%s' % strategy)
            if not conflicts:
                self.violate('conciliation-without-conflict', {'inst': inst.nick}, 'conciliation-without-conflict')
        elif ep is not None and state != 'CONCILIATION':
            self._close(sim, inst, ep, state)
            del self.episodes[key]

    @staticmethod
    def _seen(inst, conflicts):
        """ What the Master knows about each copy (per-instance information). """
        out = {}
        for ns in conflicts:
            app = inst.supvisors.context.applications.get(ns.split(':')[0])
            proc = app.processes.get(ns.split(':')[1]) if app else None
            if proc is None:
                continue
            for ident in conflicts[ns]:
                info = proc.info_map.get(ident, {})
                out['%s@%s' % (ns, ident)] = (info.get('statename'), round(info.get('uptime', -1), 1))
        return out

    def _born(self, sim, conflicts):
        """ True spawn time of every conflicting copy (simulator ground truth). """
        born = {}
        for ns, ids in conflicts.items():
            for ident in ids:
                p = sim.inst_by_identifier(ident)
                if p is None or not p.alive:
                    continue
                for child in p.children.values():
                    if child.alive and child.namespec == ns:
                        born[(ns, ident)] = child.born_us
        return born

    def on_child(self, sim, inst, child, what):
        # any exit nobody asked for: with code 0 too, a process that exits while STARTING ends FATAL (running failure)
        if what == 'exit' and child.killed_by is None and child.sts is not None:
            self.crashes.append(sim.now_us)

    def on_request(self, sim, inst, identifier, rtype, body):
        from supvisors.ttypes import RequestHeaders
        ep = self.episodes.get((inst.nick, inst.incarnation))
        if ep is None:
            return
        if rtype == RequestHeaders.STOP_PROCESS:
            ep['stops'].append((body[0], identifier, sim.now_us))
        elif rtype == RequestHeaders.START_PROCESS:
            ep['starts'].append((body[0], identifier, sim.now_us))

    def after_event(self, sim, inst, kind):
        if not inst.alive or inst.supvisors is None:
            return
        key = (inst.nick, inst.incarnation)
        sv = inst.supvisors
        state = sv.fsm.state.name
        is_master = sv.state_modes.is_master()
        k = self.k.get(key)
        ep = self.episodes.get(key)
        if ep is not None:
            # new conflicts may appear during the conciliation: they are conciliated at the next evaluation
            cur = self._conflicts(sim, inst)
            for ns, ids in cur.items():
                for i in ids:
                    ep['copies'].add((ns, i))
                if ns not in ep['conflicts']:
                    ep['conflicts'][ns] = set(ids)
                    ep['born'].update(self._born(sim, {ns: ids}))
        prev = self.prev.get(key)
        jobs = sv.starter.in_progress() or sv.stopper.in_progress()
        conflicts = None
        if is_master and state == 'OPERATION':
            conflicts = self._conflicts(sim, inst)
        self.prev[key] = {'state': state, 'master': is_master, 'conflicts': conflicts, 'jobs': jobs, 'k': k}
        # detection: a Master in OPERATION, idle, seeing a conflict before its tick, is not in OPERATION after it
        if prev and prev['master'] and prev['state'] == 'OPERATION' and prev['conflicts'] and not prev['jobs'] \
                and k is not None and prev['k'] is not None and k > prev['k']:
            self._probe('detection_checked')
            common = set(prev['conflicts']) & set(conflicts or ())
            if state == 'OPERATION' and is_master and common and not jobs:
                self.violate('conflict-not-detected', {'inst': inst.nick, 'conflicts': {n: sorted(i) for n, i in
                                                                                      prev['conflicts'].items()}},
                             'conflict-not-detected')

    def _close(self, sim, inst, ep, new_state):
        strategy = ep['strategy']
        stops = {(ns, i) for ns, i, _t in ep['stops']}
        detail = {'inst': ep['inst'], 'strategy': strategy, 'seen': ep.get('seen'),
                  'conflicts': {n: sorted(i) for n, i in ep['conflicts'].items()},
                  'stops': sorted(stops), 'starts': sorted((n, i) for n, i, _t in ep['starts']), 'to': new_state}
        self._probe('episode_closed_%s' % new_state)
        if new_state != 'OPERATION':
            return  # interrupted (Master lost, election ...): no claim on a partial conciliation
        # the quantifier has no fault DURING the conciliation (requests to a cut instance hang or are lost)
        if sim.cuts or sim.blackhole:
            self._probe('episode_disturbed')
            return
        for t_us, item, fired in self.run.applied:
            if fired and item['kind'] in ('partition', 'heal', 'crash', 'restart', 'stall') \
                    and ep['t0'] - 40 * US <= t_us <= sim.now_us:
                self._probe('episode_disturbed')
                return
        # a process crashing around the conciliation triggers its own running failure strategy (stop / restart of the
        # application): the requests of the episode are then not those of the conciliation alone
        if any(ep['t0'] - 40 * US <= t <= sim.now_us for t in self.crashes):
            self._probe('episode_disturbed_by_process_crash')
            return
        if strategy == 'USER':
            if stops or ep['starts']:
                self.violate('user-strategy-acted', detail, 'user-strategy-acted')
            return
        lat = sim.lat['hi']
        final_conflicts = self._conflicts(sim, inst)
        for ns, ids in ep['conflicts'].items():
            copies = {(ns, i) for i in ids}
            if ns not in final_conflicts and not any(s_ns == ns for s_ns, _i in stops):
                # the conflict went away without any action of the Master (a copy died or was stopped by the user
                # before the next evaluation): nothing to conciliate
                self._probe('conflict_vanished')
                continue
            if strategy in ('SENICIDE', 'INFANTICIDE'):
                kept = copies - stops
                if len(kept) > 1:
                    # the conflict disappeared by itself for some copies? then they must not be running any more
                    still = self._conflicts(sim, inst).get(ns)
                    if still:
                        self.violate('copies-left', dict(detail, process=ns, kept=sorted(kept)), 'copies-left')
                    continue
                born = {c: ep['born'].get(c) for c in copies}
                if len(kept) == 1 and all(b is not None for b in born.values()):
                    k_copy = next(iter(kept))
                    others = [c for c in copies if c != k_copy]
                    tol = int((6.0 + 2 * lat + self._startsecs(sim, ns)) * US)
                    # the Master's information about a copy may be stale (C12 known findings): a copy seen STARTING /
                    # BACKOFF has uptime 0 by convention although it has been running for long
                    stale = ''
                    for c in copies:
                        seen = (ep.get('seen') or {}).get('%s@%s' % c)
                        if seen and seen[0] in ('STARTING', 'BACKOFF') and born[c] is not None \
                                and ep['t0'] - born[c] > int((self._startsecs(sim, ns) + 10) * US):
                            stale = ':master-view-of-copy-stale'
                        # the STARTING event was missed (C12 findings): RUNNING is known but the start date is not, and
                        # the uptime is then the whole monotonic clock of the host
                        if seen and seen[0] == 'RUNNING' and born[c] is not None \
                                and seen[1] - (ep['t0'] - born[c]) / US > self._startsecs(sim, ns) + 30:
                            stale = ':master-view-of-copy-stale'
                    for o in others:
                        if strategy == 'SENICIDE' and born[k_copy] < born[o] - tol:
                            self.violate('kept-older', dict(detail, process=ns, kept=k_copy, born=self._fmt(born)),
                                         'senicide-kept-older' + stale)
                        if strategy == 'INFANTICIDE' and born[k_copy] > born[o] + tol:
                            self.violate('kept-younger', dict(detail, process=ns, kept=k_copy, born=self._fmt(born)),
                                         'infanticide-kept-younger' + stale)
            else:
                # STOP, RESTART, RUNNING_FAILURE: every copy is asked to stop (unless it stopped by itself meanwhile)
                missing = copies - stops
                if missing:
                    self._probe('copy_not_stopped_checked')
                    # a copy that died by itself before its turn needs no stop
                    # (a copy without recorded spawn time was already dead when the Master listed it: event in flight)
                    alive = [c for c in missing if ep['born'].get(c) is not None
                             and self._copy_alive(sim, c, ep['born'].get(c))]
                    if alive:
                        self.violate('copy-not-stopped', dict(detail, process=ns, missing=sorted(alive)),
                                     'copy-not-stopped:%s' % strategy)
            if strategy == 'RESTART':
                # one start per conciliation round (a new conflict during CONCILIATION opens a new round):
                # a round = a burst of stop requests of the process, followed by at most one start request
                evs = sorted([(t, 'stop') for s_ns, _i, t in ep['stops'] if s_ns == ns] +
                             [(t, 'start') for s_ns, _i, t in ep['starts'] if s_ns == ns])
                starts_in_round = 0
                for _t, kind in evs:
                    if kind == 'stop':
                        starts_in_round = 0
                    else:
                        starts_in_round += 1
                        if starts_in_round > 1:
                            self.violate('restart-more-than-one', dict(detail, process=ns),
                                         'restart-more-than-one')
                            break
                # ... and at least one: "RESTART then starts one copy again". The start follows the last stop
                # acknowledgement and precedes the return to OPERATION (the Starter is then busy). Nothing to start it on
                # is reported as a forced FATAL
                if ns in ep.get('given_up', ()):
                    self._probe('restart_after_given_up_stop_skipped')
                elif any(s_ns == ns for s_ns, _i in stops) and not any(s_ns == ns for s_ns, _i, _t in ep['starts']):
                    self._probe('restart_without_start_seen')
                    app_o = inst.supvisors.context.applications.get(ns.split(':')[0])
                    proc_o = app_o.processes.get(ns.split(':')[1]) if app_o else None
                    # a start of the application that failed meanwhile (no resource, FATAL) may have applied its
                    # starting failure strategy (ABORT / STOP), which drops the starts still planned
                    if app_o is not None and any(q.serial()['statename'] == 'FATAL' for q in app_o.processes.values()):
                        self._probe('restart_dropped_after_starting_failure_skipped')
                    elif proc_o is not None:
                        shown = proc_o.serial()
                        if shown['statename'] in ('STOPPED', 'EXITED') and not proc_o.running_identifiers:
                            self.violate('restart-not-started', dict(detail, process=ns, shown=shown['statename']),
                                         'restart-not-started')
        # RESTART / RUNNING_FAILURE may legitimately cascade (starting failure strategy STOP, STOP_APPLICATION ...)
        if strategy in ('SENICIDE', 'INFANTICIDE', 'STOP'):
            extra = stops - ep['copies']
            if extra:
                self.violate('stopped-outside-conflict', dict(detail, extra=sorted(extra)),
                             'stopped-outside-conflict:%s' % strategy)
        # exit: no conflict remains
        left = self._conflicts(sim, inst)
        if left:
            self.violate('conflict-remains', dict(detail, left={n: sorted(i) for n, i in left.items()}),
                         'conflict-remains-at-exit')

    @staticmethod
    def _fmt(born):
        return {'%s@%s' % k: (v / US if v is not None else None) for k, v in born.items()}

    def _startsecs(self, sim, ns):
        group, _, pname = ns.partition(':')
        for g in sim.config['groups']:
            if g['name'] == group:
                for p in g['programs']:
                    if pname == p['name'] or pname.startswith(p['name'] + '_'):
                        return p.get('startsecs', 1)
        return 10

    def _copy_alive(self, sim, copy, born_us=None):
        """ Is the ORIGINAL conflicting child still alive (a copy restarted by the strategy is another child)? """
        ns, ident = copy
        p = sim.inst_by_identifier(ident)
        if p is None or not p.alive:
            return False
        return any(c.alive and c.namespec == ns and (born_us is None or c.born_us == born_us)
                   for c in p.children.values())
