"""Always-on oracles: C16 (no internal failure) and C02 (state graph)."""
import re

from supvsim.scenario import Observer, frozen

# independent copy of the documented Supvisors state graph (C02)
FSM_GRAPH = {
    'OFF': {'SYNCHRONIZATION'},
    'SYNCHRONIZATION': {'OFF', 'ELECTION'},
    'ELECTION': {'OFF', 'SYNCHRONIZATION', 'DISTRIBUTION', 'SHUTTING_DOWN'},
    'DISTRIBUTION': {'OFF', 'SYNCHRONIZATION', 'ELECTION', 'OPERATION', 'RESTARTING', 'SHUTTING_DOWN'},
    'OPERATION': {'OFF', 'SYNCHRONIZATION', 'ELECTION', 'CONCILIATION', 'RESTARTING', 'SHUTTING_DOWN'},
    'CONCILIATION': {'OFF', 'SYNCHRONIZATION', 'ELECTION', 'OPERATION', 'RESTARTING', 'SHUTTING_DOWN'},
    'RESTARTING': {'FINAL'},
    'SHUTTING_DOWN': {'FINAL'},
    'FINAL': set(),
}
MASTER_DRIVEN = {'DISTRIBUTION', 'OPERATION', 'CONCILIATION', 'RESTARTING', 'SHUTTING_DOWN'}

_FILE_RE = re.compile(r'File "([^"]+)", line (\d+), in (\S+)')


def tb_signature(tb):
    """ exception type @ innermost supvisors frame (file:function). """
    lines = [l for l in tb.strip().splitlines() if l.strip()]
    exc = lines[-1].split(':')[0].strip() if lines else 'Unknown'
    frames = _FILE_RE.findall(tb)
    where = 'unknown'
    for fname, _line, func in reversed(frames):
        if '/supvisors/' in fname:
            where = '%s:%s' % (fname.rsplit('/', 1)[-1], func)
            break
    else:
        if frames:
            fname, _line, func = frames[-1]
            where = '%s:%s' % (fname.rsplit('/', 1)[-1], func)
    return '%s@%s' % (exc.rsplit('.', 1)[-1], where)


class InternalErrors(Observer):
    """ C16: no CRIT record carrying a traceback, no exception other than RPCError out of an XML-RPC method,
    no exception out of a proxy job. """
    prop = 'C16'

    def finish(self):
        sim = self.sim
        seen = set()
        for err in sim.internal_errors:
            sig = tb_signature(err['tb'])
            kind = err['where'].split(':')[0]
            key = (kind, sig)
            if key in seen:
                continue
            seen.add(key)
            self.violations_add(kind, sig, err['inst'], err['where'], err['tb'], err['t_us'])
        for inst in list(sim.instances.values()) + sim.graveyard:
            if inst.logger is None:
                continue
            for t_us, text in inst.logger.crit:
                if 'Traceback' in text:
                    sig = tb_signature(text)
                    key = ('crit', sig)
                    if key in seen:
                        continue
                    seen.add(key)
                    self.violations_add('crit-traceback', sig, inst.nick, 'log', text, t_us)

    def violations_add(self, kind, sig, nick, where, tb, t_us):
        from supvsim.scenario import Violation
        if len(self.violations) < 20:
            self.violations.append(Violation('C16', kind, {'inst': nick, 'where': where, 'traceback': tb[-1500:]},
                                             t_us, signature='%s:%s' % (kind, sig)))


def _content(state_modes):
    """ What a StateModes record holds (its serialisation carries the current clock). """
    return {k: v for k, v in state_modes.serial().items() if k not in ('now', 'now_monotonic')}


class StateGraph(Observer):
    """ C02: published Supvisors states follow the documented graph; Master-driven states need a RUNNING Master;
    a non-Master enters them only after its Master has. """
    prop = 'C02'

    def __init__(self):
        super().__init__()
        self.last = {}       # (nick, incarnation) -> last published state
        self.entered = {}    # nick -> set of states ever published (any incarnation), with first global order
        self.history = {}    # nick -> [(t_us, state)] every published change
        self.delivered = {}
        self.probes = {}

    def on_boot(self, sim, inst):
        self.last[(inst.nick, inst.incarnation)] = 'OFF'
        # what a Slave follows is the STORED state of its Master: a stored state & modes record must never be replaced by
        # an older one of the same peer (hand-shake snapshots and publications travel by different paths)
        sm = inst.supvisors.state_modes
        obs = self
        orig = sm.on_instance_state_event
        applied = {}   # identifier -> (StateModes object, stamp of the latest event applied to it)

        def on_instance_state_event(identifier, event):
            obj = sm.instance_state_modes.get(identifier)
            pre = _content(obj) if obj is not None else None
            res = orig(identifier, event)
            if obj is None or sm.instance_state_modes.get(identifier) is not obj or identifier == sm.local_identifier:
                return res
            stamp = event.get('now_monotonic') if isinstance(event, dict) else None
            if stamp is None or _content(obj) == pre:
                return res
            known = applied.get(identifier)
            last = known[1] if known is not None and known[0] is obj else None
            obs.probes['state_event_applied'] = obs.probes.get('state_event_applied', 0) + 1
            if last is not None and stamp < last:
                obs.violate('older-state-applied', {'inst': inst.nick, 'peer': identifier, 'stamp': stamp, 'latest': last,
                                                    'state': event.get('fsm_statename')},
                            'older-state-and-modes-applied')
            applied[identifier] = (obj, stamp if last is None else max(last, stamp))
            return res
        sm.on_instance_state_event = on_instance_state_event

    def on_wire(self, sim, rec):
        # latest state publication of each peer delivered to (and handled by) each instance, with the state the receiver
        # held the sender in at that instant (publications of a peer that is not CHECKED / RUNNING are ignored)
        if rec['method'] == 'supervisor.sendRemoteCommEvent' and rec.get('outcome') == 'ok' and rec.get('header') == 7 \
                and rec.get('comm_type') == 'SupvisorsPublication' and isinstance(rec.get('body'), dict) \
                and rec['src'] != rec['dst'] and rec.get('src'):
            d, src = sim.instances.get(rec['dst']), sim.instances.get(rec['src'])
            if d is not None and src is not None and d.alive and d.supvisors is not None:
                st = d.supvisors.context.instances.get(src.identifier)
                self.delivered[(d.nick, d.incarnation, src.nick)] = (sim.now_us, rec['body'].get('fsm_statename'),
                                                                     st.state.name if st else None)

    def on_publication(self, sim, inst, ptype, body):
        from supvisors.ttypes import PublicationHeaders
        if ptype != PublicationHeaders.STATE:
            return
        key = (inst.nick, inst.incarnation)
        new = body['fsm_statename']
        old = self.last.get(key, 'OFF')
        if new == old:
            return
        self.last[key] = new
        if new not in FSM_GRAPH.get(old, ()):
            self.violate('edge', {'inst': inst.nick, 'from': old, 'to': new}, 'edge:%s->%s' % (old, new))
        if new in MASTER_DRIVEN:
            master = body['master_identifier']
            # specific history behind the recorded finding: supvisors_failure_strategy=SHUTDOWN makes any instance
            # enter SHUTTING_DOWN by itself when a required instance is missing (no shutdown was requested)
            suffix = ''
            if new == 'SHUTTING_DOWN' and self._auto_shutdown(inst):
                suffix = ':failure-strategy-SHUTDOWN'
            if not master:
                self.violate('no-master', {'inst': inst.nick, 'state': new}, 'no-master:%s%s' % (new, suffix))
            elif body['instance_states'].get(master) != 'RUNNING':
                self.violate('master-not-running', {'inst': inst.nick, 'state': new, 'master': master,
                                                    'seen': body['instance_states'].get(master)},
                             'master-not-running:%s%s' % (new, suffix))
            elif master != inst.identifier:
                m_nick = sim.by_identifier.get(master)
                if new not in self.entered.get(m_nick, ()):
                    self.violate('slave-before-master', {'inst': inst.nick, 'state': new, 'master': m_nick},
                                 'slave-before-master:%s%s' % (new, suffix))
                else:
                    # ... and in its current or previous term: the Master has published `new` since the election before
                    # its last one (one term of slack: the Slave follows what it last RECEIVED from the Master, which may
                    # have gone back to ELECTION since)
                    hist = self.history.get(m_nick, [])
                    cls = ('OFF', 'SYNCHRONIZATION', 'ELECTION')
                    elections = [t for k, (t, st) in enumerate(hist)
                                 if st in cls and (k == 0 or hist[k - 1][1] not in cls)]
                    since = elections[-2] if len(elections) >= 2 else -1
                    if not any(st == new and t >= since for t, st in hist):
                        # recorded finding: the Slave follows the Master state it has STORED; when the publications of the
                        # Master did not reach it (sender saw it STOPPED, one-way failures on a slow network) the stored
                        # state is the one of an older term
                        stored = inst.supvisors.state_modes.master_state
                        stored = stored.name if stored is not None else None
                        true_now = hist[-1][1] if hist else None
                        stale = ':stale-view-of-master-state' if stored != true_now else ''
                        # ... which is only that mechanism when the Master's current state never reached this Slave: a
                        # state that WAS delivered and handled, then replaced by an older one, is something else
                        got = self.delivered.get((inst.nick, inst.incarnation, m_nick))
                        if stale and hist and got is not None and got[1] == true_now and got[0] >= hist[-1][0] \
                                and got[2] in ('CHECKED', 'RUNNING'):
                            stale = ':newer-master-state-had-been-delivered'
                        self.violate('slave-before-master', {'inst': inst.nick, 'state': new, 'master': m_nick,
                                                             'master_history': hist[-6:], 'stored_master_state': stored},
                                     'slave-before-master-in-term:%s%s%s' % (new, suffix, stale))
        self.entered.setdefault(inst.nick, set()).add(new)
        self.history.setdefault(inst.nick, []).append((sim.now_us, new))

    def _auto_shutdown(self, inst):
        from oracles.cluster import effective_options
        _, _, strategy = effective_options(self.run.config)
        if strategy != 'SHUTDOWN':
            return False
        return True

    def after_event(self, sim, inst, kind):
        # what get_supvisors_state reports is what was last published
        if not inst.alive or inst.rpcif is None:
            return
        with frozen(sim, inst):
            shown = inst.supvisors.state_modes.local_state_modes.state.name
        last = self.last.get((inst.nick, inst.incarnation))
        if last is not None and shown != last:
            self.violate('unpublished-change', {'inst': inst.nick, 'shown': shown, 'published': last},
                         'unpublished-change')
