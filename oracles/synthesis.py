"""C11: the status reported for a process is a deterministic synthesis of the per-instance reports.

An independent reference model (RefProcess, written from the property statement) is stepped with every input the real
Context receives (snapshots, process events, forced events, removals, instance losses), in the order the real code
receives them, and the answers of get_process_info / get_conflicts are compared with the model after each step."""
from supvsim.scenario import Observer, frozen

STOPPED, STARTING, RUNNING, BACKOFF, STOPPING, EXITED, FATAL, UNKNOWN = 0, 10, 20, 30, 40, 100, 200, 1000
STOPPED_LIKE = (STOPPED, EXITED, FATAL, UNKNOWN)
RUNNING_LIKE = (STARTING, RUNNING, BACKOFF)
ADVANCED = (RUNNING, BACKOFF, STARTING, STOPPING)   # most advanced first
ADMITTED = ('CHECKED', 'RUNNING')


class RefProcess:
    def __init__(self):
        self.reports = {}     # identifier -> {'state', 'expected', 'rx', 'event_time', 'lost'}
        self.listed = set()
        self.forced = None
        self.undetermined = None   # a field the statement leaves open after the last step

    def report(self, ident, state, expected, event_time, rx, lost=False):
        self.reports[ident] = {'state': state, 'expected': expected, 'rx': rx, 'event_time': event_time, 'lost': lost}
        if state in RUNNING_LIKE:
            self.listed.add(ident)
        elif state in STOPPED_LIKE:
            self.listed.discard(ident)
        # STOPPING: stays as it was

    def synth(self):
        if len(self.listed) >= 2:
            states = {self.reports[i]['state'] for i in self.listed}
            return next((s for s in ADVANCED if s in states), UNKNOWN)
        if len(self.listed) == 1:
            return self.reports[next(iter(self.listed))]['state']
        if any(r['state'] == STOPPING for r in self.reports.values()):
            return STOPPING
        return max(self.reports.values(), key=lambda r: r['rx'])['state']

    def display(self):
        return self.forced if self.forced is not None else self.synth()

    def expected_exit(self):
        """ Defined by the statement only when the process shows a stopped-like state coming from a report. """
        if self.forced is None and not self.listed and self.reports \
                and not any(r['state'] == STOPPING for r in self.reports.values()):
            return max(self.reports.values(), key=lambda r: r['rx'])['expected']
        return None


class Synthesis(Observer):
    prop = 'C11'

    def __init__(self):
        super().__init__()
        self.probes = {}
        self.models = {}    # (nick, inc) -> {ns: RefProcess}
        self.rx = 0
        self.steps = 0

    def _probe(self, name, n=1):
        self.probes[name] = self.probes.get(name, 0) + n

    # --- taps on the real Context ---------------------------------------------------------------------------------
    def on_boot(self, sim, inst):
        ctx = inst.supvisors.context
        key = (inst.nick, inst.incarnation)
        model = self.models[key] = {}
        obs = self
        o_event, o_load, o_removed, o_inval = (ctx.on_process_state_event, ctx.load_processes,
                                               ctx.on_process_removed_event, ctx.invalidate_failed)

        def managed(app_name):
            app = ctx.applications.get(app_name)
            return app is not None and app.rules.managed

        def on_process_state_event(status, event):
            admitted = status.state.name in ADMITTED
            ns = '%s:%s' % (event['group'], event['name'])
            ev = dict(event)
            res = o_event(status, event)
            ref = model.get(ns)
            if not admitted or ref is None:
                obs._probe('event_ignored')
                if ref is not None:
                    obs._compare(sim, inst, model, [ns], 'ignored-event')
                return res
            if 'forced' in ev:
                target = ev['identifier']
                rep = ref.reports.get(target)
                if rep is not None and rep['lost']:
                    # the lost entry carries the time of the last tick, which the statement does not talk about
                    ref.forced = obs._real_forced(ctx, ns)
                    obs._probe('forced_after_loss')
                elif rep is not None and rep['event_time'] > ev['now_monotonic']:
                    obs._probe('forced_dismissed')
                else:
                    ref.forced = ev['state']
                    obs._probe('forced_applied')
                obs._compare(sim, inst, model, [ns], 'forced')
                return res
            if status.identifier not in ref.reports:
                obs._probe('event_without_entry')
                obs._compare(sim, inst, model, [ns], 'ignored-event')
                return res
            obs.rx += 1
            ref.report(status.identifier, ev['state'], ev['expected'], ev['now_monotonic'], obs.rx)
            ref.forced = None
            obs._probe('event_applied')
            if len(ref.listed) >= 2:
                obs._probe('conflict_reached')
            obs._compare(sim, inst, model, [ns], 'event')
            return res

        def load_processes(status, all_info, check_state=True):
            applies = all_info is not None and (not check_state or status.state.name == 'CHECKING')
            infos = [dict(i) for i in all_info] if applies else []
            res = o_load(status, all_info, check_state)
            touched = []
            for info in infos:
                ns = '%s:%s' % (info['group'], info['name'])
                app = ctx.applications.get(info['group'])
                if app is None or info['name'] not in app.processes:
                    continue   # no rules: not stored
                ref = model.setdefault(ns, RefProcess())
                obs.rx += 1
                ref.report(status.identifier, info['state'], info['expected'], info['now_monotonic'], obs.rx)
                if info['state'] != STOPPED:
                    ref.forced = None
                touched.append(ns)
            if touched:
                obs._probe('snapshot_entries', len(touched))
                obs._compare(sim, inst, model, touched, 'snapshot' if check_state else 'added')
            return res

        def on_process_removed_event(status, event):
            admitted = status.state.name in ADMITTED
            group, name = event['group'], event['name']
            ident = status.identifier
            if name == '*':
                targets = [ns for ns, ref in model.items() if ns.startswith(group + ':') and ident in ref.reports]
                valid = group in ctx.applications
            else:
                ns = '%s:%s' % (group, name)
                valid = ns in model and ident in model[ns].reports
                targets = [ns] if valid else []
            res = o_removed(status, event)
            if not admitted or not valid:
                obs._probe('removal_ignored')
                return res
            alive = []
            for ns in targets:
                ref = model[ns]
                was_listed = ident in ref.listed
                del ref.reports[ident]
                ref.listed.discard(ident)
                if not ref.reports:
                    del model[ns]
                    obs._probe('process_deleted')
                    app = ctx.applications.get(group)
                    if app is not None and ns.split(':')[1] in app.processes:
                        obs.violate('deleted-process-remains', {'inst': inst.nick, 'process': ns},
                                    'removed:process-remains')
                else:
                    alive.append(ns)
                obs._probe('removal_applied_listed' if was_listed else 'removal_applied')
            obs._compare(sim, inst, model, alive, 'removed')
            return res

        def invalidate_failed():
            failed = [s.identifier for s in ctx.instances.values() if s.state.name == 'FAILED']
            res = o_inval()
            touched = []
            for ident in failed:
                for ns, ref in model.items():
                    if ident in ref.listed:
                        obs.rx += 1
                        old = ref.reports[ident]
                        ref.report(ident, FATAL, False, old['event_time'], obs.rx, lost=True)
                        ref.forced = None
                        touched.append(ns)
                        obs._probe('loss_applied')
            if touched:
                obs._compare(sim, inst, model, touched, 'loss')
            return res

        ctx.on_process_state_event = on_process_state_event
        ctx.load_processes = load_processes
        ctx.on_process_removed_event = on_process_removed_event
        ctx.invalidate_failed = invalidate_failed

    @staticmethod
    def _real_forced(ctx, ns):
        group, _, name = ns.partition(':')
        try:
            return ctx.applications[group].processes[name].forced_state
        except KeyError:
            return None

    # --- comparison ---------------------------------------------------------------------------------------------------
    def _real(self, sim, inst, ns):
        from supervisor.xmlrpc import RPCError
        with frozen(sim, inst):
            try:
                infos = inst.rpcif.get_process_info(ns)
                return infos[0]
            except RPCError:
                pass
            group, _, name = ns.partition(':')
            try:
                return inst.supvisors.context.applications[group].processes[name].serial()
            except KeyError:
                return None

    def _real_conflicts(self, sim, inst):
        from supervisor.xmlrpc import RPCError
        with frozen(sim, inst):
            try:
                infos = inst.rpcif.get_conflicts()
            except RPCError:
                infos = [p.serial() for p in inst.supvisors.context.conflicts()]
        return {'%s:%s' % (i['application_name'], i['process_name']) for i in infos}

    def _compare(self, sim, inst, model, namespecs, step):
        self.steps += 1
        conflicts = None
        ctx = inst.supvisors.context
        for ns in namespecs:
            ref = model.get(ns)
            if ref is None:
                continue
            real = self._real(sim, inst, ns)
            self._probe('compared')
            if real is None:
                self.violate('process-missing', {'inst': inst.nick, 'process': ns, 'step': step},
                             '%s:process-missing' % step)
                del model[ns]
                continue
            detail = {'inst': inst.nick, 'process': ns, 'step': step,
                      'model': {'listed': sorted(ref.listed), 'display': ref.display(), 'forced': ref.forced,
                                'reports': {i: (r['state'], r['rx']) for i, r in sorted(ref.reports.items())}},
                      'real': {'identifiers': sorted(real['identifiers']), 'statecode': real['statecode'],
                               'expected_exit': real['expected_exit']}}
            bad = False
            if set(real['identifiers']) != ref.listed:
                self.violate('identifiers', detail, '%s:identifiers' % step)
                bad = True
            if real['statecode'] != ref.display():
                self.violate('state', detail, '%s:state' % step)
                bad = True
            exp = ref.expected_exit()
            if not bad and exp is not None and real['statecode'] == EXITED and real['expected_exit'] != exp:
                self.violate('expected-exit', detail, '%s:expected-exit' % step)
                bad = True
            app = ctx.applications.get(ns.split(':')[0])
            if app is not None and app.rules.managed:
                if conflicts is None:
                    conflicts = self._real_conflicts(sim, inst)
                if (ns in conflicts) != (len(real['identifiers']) >= 2):
                    self.violate('conflict-flag', detail, '%s:conflict-flag' % step)
                    bad = True
            if bad:
                self._resync(ctx, ns, ref)

    def _resync(self, ctx, ns, ref):
        """ After a reported difference, follow the real code so that one defect is reported once. """
        group, _, name = ns.partition(':')
        proc = ctx.applications[group].processes[name]
        ref.listed = set(proc.running_identifiers) & set(ref.reports)
        ref.forced = proc.forced_state
        for ident, info in proc.info_map.items():
            if ident in ref.reports:
                ref.reports[ident]['state'] = info['state']

    def finish(self):
        sim = self.run.sim
        for inst in sim.instances.values():
            if not inst.alive or inst.supvisors is None:
                continue
            model = self.models.get((inst.nick, inst.incarnation))
            if model:
                self._compare(sim, inst, model, sorted(model), 'final')
