"""C13: isolation is permanent, reciprocal and airtight.

(a) an ISOLATED peer never leaves ISOLATED during one incarnation of the observer;
(b) a message whose claimed origin is an ISOLATED peer (or does not validate) changes nothing in the observable snapshot;
(c) nothing is sent to an ISOLATED peer (a message queued before the isolation is told apart);
(d) a hand-shake with a peer that reports the observer ISOLATED, or whose strategies differ, ends ISOLATED, never admitted;
(e) process state / removal / disability events of a peer that is not CHECKED / RUNNING change nothing process-wise."""
import json

from supvsim.scenario import Observer, frozen

ADMITTED = ('CHECKED', 'RUNNING')
CLOCK_KEYS = ('now', 'now_monotonic')


def _strip(payload):
    return {k: v for k, v in payload.items() if k not in CLOCK_KEYS}


def process_snapshot(inst):
    ctx = inst.supvisors.context
    procs, infos, apps = {}, {}, {}
    for app in ctx.applications.values():
        apps[app.application_name] = _strip(app.serial())
        for proc in app.processes.values():
            procs[proc.namespec] = _strip(proc.serial())
            for ident, info in proc.info_map.items():
                infos['%s@%s' % (proc.namespec, ident)] = {k: v for k, v in info.items()}
    return {'applications': apps, 'processes': procs, 'infos': infos}


def full_snapshot(inst):
    sv = inst.supvisors
    ctx = sv.context
    snap = process_snapshot(inst)
    snap['instances'] = {ident: _strip(st.serial()) for ident, st in ctx.instances.items()}
    snap['modes'] = {ident: _strip(sm.serial()) for ident, sm in sv.state_modes.instance_state_modes.items()}
    snap['fsm'] = sv.fsm.state.name
    snap['master'] = sv.state_modes.master_identifier
    snap['jobs'] = (sv.starter.in_progress(), sv.stopper.in_progress())
    snap['conflicts'] = sorted(p.namespec for p in ctx.conflicts())
    snap['network'] = {ident: json.dumps([sid.serial(),
                                         sid.remote_view.serial() if getattr(sid, 'remote_view', None) else None,
                                         sid.local_view.serial() if getattr(sid, 'local_view', None) else None],
                                        sort_keys=True, default=str)
                       for ident, sid in sv.mapper.instances.items()}
    snap['nodes'] = {k: list(v) for k, v in sv.mapper.nodes.items()}
    return snap


def diff(a, b, path=''):
    out = []
    if isinstance(a, dict) and isinstance(b, dict):
        for k in sorted(set(a) | set(b), key=str):
            if k not in a:
                out.append('%s/%s added' % (path, k))
            elif k not in b:
                out.append('%s/%s removed' % (path, k))
            else:
                out.extend(diff(a[k], b[k], '%s/%s' % (path, k)))
    elif a != b:
        out.append('%s: %r -> %r' % (path, a, b))
    return out[:12]


class Isolation(Observer):
    prop = 'C13'

    def __init__(self):
        super().__init__()
        self.probes = {}
        self.isolated = {}     # (O, inc) -> {ident: t_us of first observation}
        self.pending = {}      # O nick -> (category, subject, header, snapshot)
        self.handshake = {}    # (O nick, P ident) -> {'sees': statecode, 'strategies': dict or None}
        self.requests_after = {}  # (O, inc, P ident) -> t_us of the last request pushed to P
        self.prev_states = {}
        self.checking_since = {}  # (O, inc, P ident) -> t_us of the entry in the current CHECKING episode

    def _probe(self, name):
        self.probes[name] = self.probes.get(name, 0) + 1

    # --- subject of a message, resolved independently of Context.is_valid --------------------------------------------
    def _resolve(self, inst, origin):
        """ Returns (status or None, valid): who the message claims to come from, from the simulated configuration. """
        try:
            identifier, nick, addr = origin
            ip, port = addr
        except Exception:  # noqa
            return None, False
        sim = self.run.sim
        cands = []
        for spec in sim.config['instances']:
            node = sim.nodes[spec['node']]
            ident = '%s:%d' % (node['host'], spec['port'])
            if identifier in (ident, spec['nick']) or nick in (ident, spec['nick']):
                cands.append((ident, node['ip'], spec['port']))
        if len(cands) != 1:
            return None, False
        ident, true_ip, true_port = cands[0]
        status = inst.supvisors.context.instances.get(ident)
        if status is None:
            return None, False
        sid = inst.supvisors.mapper.instances[ident]
        # documented flexibility: the address is only checked once the network of the peer is known
        ok = port == true_port and (ip == true_ip or sid.local_view is None)
        return status, ok

    # --- hand-shake answers observed at the answering side ------------------------------------------------------------
    def before_rpc(self, sim, dst, rec, params):
        m = rec['method']
        src = rec['src']
        if m == 'supvisors.get_instance_info' and src and src != dst.nick and rec['via'] == 'proxy':
            o = sim.instances.get(src)
            if o is not None:
                st = dst.supvisors.context.instances.get(o.identifier)
                self.handshake[(src, dst.identifier)] = {'sees': st.state.value if st else None, 'real': True,
                                                         't_us': sim.now_us}
        if m != 'supervisor.sendRemoteCommEvent':
            return
        try:
            comm_type = params[0]
            origin, (header, body) = json.loads(params[1])
        except Exception:  # noqa
            return
        notification = comm_type == 'SupvisorsNotification'
        if notification and header == 4:
            # DISCOVERY is about the instance named by the origin (identifier, nick identifier): when either names a peer
            # that is ISOLATED here, nothing may change; about instances nobody knows yet it is out of the statement
            status, valid = None, True
            try:
                d_ident, d_nick = origin[0], origin[1]
            except Exception:  # noqa
                return
            for spec in sim.config['instances']:
                node = sim.nodes[spec['node']]
                ident = '%s:%d' % (node['host'], spec['port'])
                if d_ident == ident or d_nick == spec['nick']:
                    st = dst.supvisors.context.instances.get(ident)
                    if st is not None and st.state.name == 'ISOLATED':
                        status = st
            if status is None:
                return
        elif notification and header == 0:
            # IDENTIFICATION is about the instance named in its body
            ident = body.get('identifier') if isinstance(body, dict) else None
            status = dst.supvisors.context.instances.get(ident)
            valid = status is not None
        else:
            status, valid = self._resolve(dst, origin)
        category = None
        if status is not None and status.state.name == 'ISOLATED':
            category = 'isolated'
        elif not valid:
            category = 'invalid-origin'
        elif not notification and header in (1, 3, 4) and status.state.name not in ADMITTED:
            category = 'not-admitted'
        if category is None:
            return
        with frozen(sim, dst):
            snap = process_snapshot(dst) if category == 'not-admitted' else full_snapshot(dst)
        self.pending[dst.nick] = (category, status.identifier if status is not None else None,
                                  ('N' if notification else 'P') + str(header), snap, dst.incarnation)

    def after_event(self, sim, inst, kind):
        if not inst.alive or inst.supvisors is None:
            return
        key = (inst.nick, inst.incarnation)
        pend = self.pending.pop(inst.nick, None) if kind == 'rpc' else None
        if pend is not None and pend[4] == inst.incarnation:
            category, subject, header, before, _inc = pend
            with frozen(sim, inst):
                after = process_snapshot(inst) if category == 'not-admitted' else full_snapshot(inst)
            self._probe('noninterference_%s' % category)
            self._probe('noninterference_%s_%s' % (category, header))
            d = diff(before, after)
            if d:
                self.violate('interference', {'inst': inst.nick, 'category': category, 'subject': subject,
                                              'message': header, 'changes': d},
                             'interference:%s:%s' % (category, header))
        # permanence
        known = self.isolated.setdefault(key, {})
        prev_states = self.prev_states.setdefault(key, {})
        for ident, st in inst.supvisors.context.instances.items():
            name = st.state.name
            if name == 'CHECKING' and prev_states.get(ident) != 'CHECKING':
                self.checking_since[(inst.nick, inst.incarnation, ident)] = sim.now_us
            prev_states[ident] = name
            if name == 'ISOLATED':
                if ident not in known:
                    known[ident] = sim.now_us
                    self._probe('isolated')
            elif ident in known:
                self.violate('left-isolated', {'inst': inst.nick, 'peer': ident, 'state': name}, 'left-isolated')
                del known[ident]

    # --- nothing is sent to an isolated peer ------------------------------------------------------------------------------
    def on_request(self, sim, inst, identifier, rtype, body):
        known = self.isolated.get((inst.nick, inst.incarnation), {})
        if identifier in known:
            st = inst.supvisors.context.instances[identifier]
            if st.state.name == 'ISOLATED':
                self.requests_after[(inst.nick, inst.incarnation, identifier)] = sim.now_us

    def on_wire(self, sim, rec):
        src, dst = rec['src'], rec['dst']
        if src is None or dst is None or src == dst or rec['via'] != 'proxy':
            return
        o = sim.instances.get(src)
        if o is None or not o.alive or o.supvisors is None or o.incarnation != rec['src_inc']:
            return
        ident = None
        for i, n in sim.by_identifier.items():
            if n == dst:
                ident = i
        st = o.supvisors.context.instances.get(ident)
        if st is None or st.state.name != 'ISOLATED':
            return
        t_iso = self.isolated.get((src, o.incarnation), {}).get(ident)
        if t_iso is None:
            return   # marked in the very handler that is running: judged from the next event on
        self._probe('sent_to_isolated_seen')
        m = rec['method']
        queued_before = None
        if m == 'supervisor.sendRemoteCommEvent' and isinstance(rec.get('body'), dict):
            body = rec['body']
            stamp = body.get('when_monotonic', body.get('now_monotonic'))
            if stamp is not None:
                iso_mono = o.node['mono'] + t_iso / 1e6
                queued_before = stamp <= iso_mono
        elif m != 'supervisor.sendRemoteCommEvent':
            last = self.requests_after.get((src, o.incarnation, ident))
            queued_before = last is None
        tag = 'queued-before-isolation' if queued_before else 'after-isolation'
        if queued_before and m in ('supvisors.get_network_info', 'supvisors.get_instance_info', 'supvisors.get_strategies',
                                   'supvisors.get_instance_state_modes', 'supvisors.get_all_local_process_info'):
            # the remaining queries of a hand-shake that was already running when the peer was isolated
            self.violate('sent-to-isolated', {'inst': src, 'peer': dst, 'method': m, 'isolated_at': t_iso / 1e6},
                         'sent-to-isolated:hand-shake-in-progress')
            return
        if queued_before and m != 'supervisor.sendRemoteCommEvent':
            self.violate('sent-to-isolated', {'inst': src, 'peer': dst, 'method': m, 'isolated_at': t_iso / 1e6},
                         'sent-to-isolated:request-queued-before-isolation')
            return
        self.violate('sent-to-isolated', {'inst': src, 'peer': dst, 'method': m, 'header': rec.get('header'),
                                          'isolated_at': t_iso / 1e6, 'queued_before': queued_before},
                     'sent-to-isolated:%s:%s' % (m.split('.')[-1], tag))

    # --- hand-shake outcome -----------------------------------------------------------------------------------------------
    def on_boot(self, sim, inst):
        ctx = inst.supvisors.context
        obs = self
        orig = ctx.on_authorization

        def on_authorization(status, event):
            before = status.state.name
            res = orig(status, event)
            after = status.state.name
            if before != 'CHECKING' or after == 'CHECKING':
                return res
            pnick = sim.by_identifier.get(status.identifier)
            puppet = sim.puppets.get(pnick)
            ans = None
            if puppet is not None:
                ans = puppet.last_answers.get(inst.nick)
            else:
                ans = obs.handshake.get((inst.nick, status.identifier))
            if not ans:
                return res
            # the answers that admit a peer must have been given during the CURRENT hand-shake: a result of an earlier
            # CHECKING episode (slow answers, the peer went STOPPED and CHECKING again meanwhile) is stale
            t_chk = obs.checking_since.get((inst.nick, inst.incarnation, status.identifier))
            if after in ADMITTED and t_chk is not None and ans.get('t_us') is not None and ans['t_us'] < t_chk:
                obs.violate('admitted', {'inst': inst.nick, 'peer': pnick, 'answered_at': ans['t_us'] / 1e6,
                                         'checking_since': t_chk / 1e6}, 'admitted-on-a-stale-authorization')
            must_isolate = ans.get('sees') == 5 or ans.get('mismatch')
            obs._probe('handshake_%s%s' % (after, '_must_isolate' if must_isolate else ''))
            if must_isolate and after in ADMITTED:
                obs.violate('admitted', {'inst': inst.nick, 'peer': pnick, 'answers': ans, 'state': after},
                            'admitted-despite-%s' % ('remote-isolation' if ans.get('sees') == 5 else 'strategies'))
            return res
        ctx.on_authorization = on_authorization
