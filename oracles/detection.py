"""C07: silent instances detected in bounded time, live ones never declared lost; instance state graph."""
from supvsim.scenario import Observer, frozen

# independent copy of the documented instance state graph
EDGES = {
    'STOPPED': {'CHECKING'},
    'CHECKING': {'STOPPED', 'CHECKED', 'FAILED', 'ISOLATED'},
    'CHECKED': {'RUNNING', 'FAILED'},
    'RUNNING': {'FAILED'},
    'FAILED': {'STOPPED', 'ISOLATED'},
    'ISOLATED': set(),
}
ACTIVE = ('CHECKING', 'CHECKED', 'RUNNING')
WORKING = ('ELECTION', 'DISTRIBUTION', 'OPERATION', 'CONCILIATION')


def reachable_in(steps, start):
    cur = {start}
    out = set()
    for _ in range(steps):
        cur = {b for a in cur for b in EDGES[a]}
        out |= cur
    return out


# one handler can chain up to 3 documented steps (e.g. CHECKED -> RUNNING -> FAILED -> STOPPED at one tick)
SAMPLED_OK = {a: reachable_in(3, a) | {a} for a in EDGES}


class FailureDetection(Observer):
    prop = 'C07'

    def __init__(self):
        super().__init__()
        self.probes = {}
        self.k = {}            # (nick, inc) -> last local tick counter published
        self.last_rx = {}      # (O, Oinc, Pident) -> (k of O at reception, P incarnation)
        self.rpc_fail = {}     # (O, Oinc, Pnick) -> count of failed RPCs O -> P since P last became CHECKING at O
        self.prev = {}         # (O, Oinc) -> {Pident: state}
        self.prev_master = {}  # (O, Oinc) -> (master identifier, master state name)
        self.prev_running = {}  # (O, Oinc) -> {Pident: set(namespec listed as running on P)}
        self.failed_at_tick = {}  # (O, Oinc, Pident) -> k at which P was seen FAILED after a tick handler
        self.stalled = {}

    def _probe(self, name):
        self.probes[name] = self.probes.get(name, 0) + 1

    # --- feeds ----------------------------------------------------------------------------------
    def on_publication(self, sim, inst, ptype, body):
        from supvisors.ttypes import PublicationHeaders
        if ptype == PublicationHeaders.TICK:
            self.k[(inst.nick, inst.incarnation)] = body['sequence_counter']

    def on_wire(self, sim, rec):
        from supvisors.ttypes import PublicationHeaders
        src, dst = rec['src'], rec['dst']
        if src is None or dst is None or src == dst or rec['via'] != 'proxy':
            return
        o = sim.instances.get(src)
        if rec['outcome'] in ('refused',) or rec.get('resp_lost'):
            if o is not None:
                key = (src, rec['src_inc'], dst)
                self.rpc_fail[key] = self.rpc_fail.get(key, 0) + 1
            return
        if rec.get('header') == PublicationHeaders.TICK.value and rec['outcome'] == 'ok' \
                and rec.get('comm_type') == 'SupvisorsPublication':
            # a TICK of src delivered to dst's listener
            d = sim.instances.get(dst)
            if d is None or not d.alive:
                return
            local = d.supvisors.context.local_status.state.name
            if local not in ('CHECKED', 'RUNNING'):
                return  # "waiting for local tick first": the tick is not taken into account, by design
            kd = self.k.get((dst, d.incarnation))
            if kd is None:
                return
            s = sim.instances.get(src)
            self.last_rx[(dst, d.incarnation, s.identifier)] = (kd, rec['src_inc'], rec['body']['sequence_counter'])

    # --- checks ---------------------------------------------------------------------------------
    def after_event(self, sim, inst, kind):
        if not inst.alive or inst.supvisors is None:
            return
        okey = (inst.nick, inst.incarnation)
        ctx = inst.supvisors.context
        cur = {ident: st.state.name for ident, st in ctx.instances.items()}
        prev = self.prev.get(okey)
        self.prev[okey] = cur
        sm = inst.supvisors.state_modes
        master = sm.master_identifier
        mstate = sm.master_state.name if sm.master_state is not None else None
        prev_master = self.prev_master.get(okey, ('', None))
        self.prev_master[okey] = (master, mstate)
        k = self.k.get(okey)
        options = inst.supvisors.options
        ticks = options.inactivity_ticks
        if cur.get(inst.identifier) == 'ISOLATED':
            self.violate('local-isolated', {'inst': inst.nick}, 'local-isolated')
        if prev is None:
            return
        # running lists before this event (for the FATAL clause)
        prev_running = self.prev_running.get(okey, {})
        changed_to_lost = []
        for ident, new in cur.items():
            old = prev.get(ident, 'STOPPED')
            if new == old:
                continue
            if new not in SAMPLED_OK[old]:
                self.violate('instance-edge', {'observer': inst.nick, 'peer': ident, 'from': old, 'to': new},
                             'instance-edge:%s->%s' % (old, new))
            if ident == inst.identifier:
                continue
            pnick = sim.by_identifier.get(ident)
            if new == 'CHECKING':
                self.rpc_fail[(inst.nick, inst.incarnation, pnick)] = 0
            if old in ('RUNNING', 'CHECKED') and new in ('FAILED', 'STOPPED', 'ISOLATED'):
                self._check_accuracy(sim, inst, ident, pnick, old, new, k, ticks)
            if new in ('STOPPED', 'ISOLATED') and old in ACTIVE + ('FAILED',):
                changed_to_lost.append((ident, old, new))
                if old != 'CHECKING':
                    self._check_fence(inst, ident, new, options.auto_fence, prev_master)
        # completeness, evaluated once per local tick of the observer
        if k is not None:
            self._check_completeness(sim, inst, cur, k, ticks)
        if changed_to_lost:
            self._check_processes(sim, inst, changed_to_lost, prev_running)
        # refresh running lists (cheap: internal read, cross-checked against the RPC view in C11/C12)
        running = {}
        for ident, status in ctx.instances.items():
            running[ident] = {ns for ns, proc in status.processes.items() if ident in proc.running_identifiers}
        self.prev_running[okey] = running

    def _check_accuracy(self, sim, inst, ident, pnick, old, new, k, ticks):
        rx = self.last_rx.get((inst.nick, inst.incarnation, ident))
        peer = sim.instances.get(pnick)
        fails = self.rpc_fail.get((inst.nick, inst.incarnation, pnick), 0)
        self._probe('loss_declared')
        if fails:
            self._probe('loss_by_rpc_failure')
            return
        if rx is None or k is None:
            return
        k_rx, p_inc, p_counter = rx
        if k - k_rx > ticks:
            self._probe('loss_by_silence')
            return
        # stealth restart: the peer restarted (its tick counter went back)
        if peer is None or peer.incarnation != p_inc or not peer.alive:
            self._probe('loss_by_restart')
            return
        status = inst.supvisors.context.instances[ident]
        if status.times.remote_sequence_counter < p_counter or status.times.local_sequence_counter == 0:
            self._probe('loss_by_restart')
            return
        self.violate('false-failure', {'observer': inst.nick, 'peer': pnick, 'from': old, 'to': new, 'k': k,
                                       'k_last_rx': k_rx, 'inactivity_ticks': ticks}, 'false-failure')

    def _check_fence(self, inst, ident, new, auto_fence, prev_master):
        master, mstate = prev_master
        if not auto_fence and new == 'ISOLATED':
            # only the hand-shake (the peer isolated us / inconsistent strategies) may isolate without auto_fence;
            # that path starts from CHECKING, excluded by the caller
            self.violate('isolated-without-auto-fence', {'observer': inst.nick, 'peer': ident},
                         'isolated-without-auto-fence')
        if auto_fence and new == 'STOPPED' and master and master != ident and mstate in WORKING:
            cur_master = inst.supvisors.state_modes.master_identifier
            cur_state = inst.supvisors.state_modes.master_state
            if cur_master == master and cur_state is not None and cur_state.name in WORKING:
                self.violate('not-fenced', {'observer': inst.nick, 'peer': ident, 'master': master, 'mstate': mstate},
                             'not-fenced')

        if auto_fence and new == 'ISOLATED':
            # the converse: fenced although the observer knew no Master in a working state, neither before nor after the
            # event that invalidated the peer
            cur_state = inst.supvisors.state_modes.master_state
            cur_working = bool(inst.supvisors.state_modes.master_identifier) and cur_state is not None \
                and cur_state.name in WORKING
            self._probe('fence_checked')
            if not (master and mstate in WORKING) and not cur_working:
                self.violate('fenced-without-working-master',
                             {'observer': inst.nick, 'peer': ident, 'master_before': [master, mstate],
                              'master_after': [inst.supvisors.state_modes.master_identifier,
                                               cur_state.name if cur_state is not None else None],
                              'own_state': inst.supvisors.fsm.state.name}, 'fenced-without-working-master')

    def _check_completeness(self, sim, inst, cur, k, ticks):
        okey = (inst.nick, inst.incarnation)
        for ident, state in cur.items():
            if ident == inst.identifier:
                continue
            key = (inst.nick, inst.incarnation, ident)
            if state in ACTIVE:
                rx = self.last_rx.get(key)
                if rx is not None and k - rx[0] > ticks:
                    # the check of tick k has run (k is published after it): more than inactivity_ticks local ticks
                    # since the last reception and still active
                    self.violate('missed-detection', {'observer': inst.nick, 'peer': ident, 'state': state, 'k': k,
                                                      'k_last_rx': rx[0], 'inactivity_ticks': ticks},
                                 'missed-detection')
                self.failed_at_tick.pop(key, None)
            elif state == 'FAILED':
                k0 = self.failed_at_tick.get(key)
                if k0 is None:
                    self.failed_at_tick[key] = k
                elif k - k0 >= 2:
                    self.violate('failed-not-invalidated', {'observer': inst.nick, 'peer': ident, 'since_k': k0,
                                                            'k': k}, 'failed-not-invalidated')
            else:
                self.failed_at_tick.pop(key, None)

    def _check_processes(self, sim, inst, lost, prev_running):
        with frozen(sim, inst):
            try:
                infos = inst.rpcif.get_all_process_info()
            except Exception:  # noqa  (state gate: before DISTRIBUTION the status calls are refused)
                infos = None
        if infos is None:
            ctx = inst.supvisors.context
            infos = [p.serial() for app in ctx.applications.values() for p in app.processes.values()]
        by_ns = {'%s:%s' % (i['application_name'], i['process_name']): i for i in infos}
        for ident, old, new in lost:
            for ns in prev_running.get(ident, ()):
                info = by_ns.get(ns)
                if info is None:
                    continue
                self._probe('lost_process_checked')
                if ident in info['identifiers']:
                    sig = 'lost-still-listed'
                    if old == 'CHECKING' and new == 'ISOLATED':
                        # recorded finding: the ALL_INFO notification of an earlier, authorized hand-shake is accepted in a
                        # later CHECKING episode (no time-stamp guard, TODO in Context.load_processes), then the current
                        # hand-shake is refused: the peer is ISOLATED straight from CHECKING, a path that invalidates nothing
                        sig = 'lost-still-listed:stale-ALL_INFO-loaded-then-authorization-refused'
                    self.violate('lost-still-listed', {'observer': inst.nick, 'peer': ident, 'process': ns,
                                                       'identifiers': info['identifiers'], 'from': old, 'to': new}, sig)
                elif not info['identifiers'] and info['statename'] != 'FATAL':
                    self.violate('lost-not-fatal', {'observer': inst.nick, 'peer': ident, 'process': ns,
                                                    'statename': info['statename']}, 'lost-not-fatal')
