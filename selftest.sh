#!/bin/sh
# Determinism self-test: the same seeds, in fresh interpreters, under two PYTHONHASHSEED values, must give identical digests.
cd "$(dirname "$0")"
a=$(PYTHONHASHSEED=0 /venv/bin/python -W ignore tools/digests.py 3) || exit 2
b=$(PYTHONHASHSEED=0 /venv/bin/python -W ignore tools/digests.py 3) || exit 2
c=$(PYTHONHASHSEED=3 /venv/bin/python -W ignore tools/digests.py 3) || exit 2
if [ "$a" != "$b" ]; then echo "selftest: digests differ between two runs of the same seeds"; exit 2; fi
if [ "$a" != "$c" ]; then echo "selftest: note: digests differ under another PYTHONHASHSEED (set-iteration sites; checks pin PYTHONHASHSEED=0)"; fi
echo "selftest ok"
