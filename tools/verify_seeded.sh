#!/bin/bash
# verify a seeded change produced in a scratch worktree: tests still pass, demo fails with / passes without
# usage: tools/verify_seeded.sh <ID> <worktree> [demo file]
set -u
ID=$1; WT=$2; DEMO=${3:-demo_$ID.py}
cd "$WT" || exit 2
export PYTHONPATH=$WT
echo "== suite with the change"
timeout 1500 /venv/bin/python -m pytest -q -p no:cacheprovider --timeout=900 --continue-on-collection-errors \
    --junitxml=/tmp/seeded_$ID.xml 2>&1 | tail -3
/venv/bin/python - "$ID" <<'PY'
import json, sys, xml.etree.ElementTree as ET
base = set(json.load(open('/root/.vp/BASELINE.json'))['stable_pass'])
root = ET.parse('/tmp/seeded_%s.xml' % sys.argv[1]).getroot()
ok = set()
for tc in root.iter('testcase'):
    if not any(c.tag in ('failure', 'error', 'skipped') for c in tc):
        ok.add('%s::%s' % (tc.get('classname'), tc.get('name')))
missing = sorted(base - ok)
print('baseline tests: %d, passing with the change: %d, broken: %d' % (len(base), len(base & ok), len(missing)))
for m in missing[:10]:
    print('  BROKEN', m)
PY
echo "== demo with the change"
timeout 600 /venv/bin/python -m pytest -q -p no:cacheprovider "$DEMO" 2>&1 | tail -3
echo "== demo without the change"
git diff -- supvisors > /tmp/seeded_$ID.change.diff
git checkout -- supvisors
timeout 600 /venv/bin/python -m pytest -q -p no:cacheprovider "$DEMO" 2>&1 | tail -3
git apply /tmp/seeded_$ID.change.diff
git status --short | head -5
