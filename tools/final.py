#!/venv/bin/python
"""tools/final.py <prop> <seed|replay.json>: per-instance view of every peer's state&modes at the end of the run, vs the peer's own."""
import json, os, sys
if os.environ.get('PYTHONHASHSEED') != '0':
    os.environ['PYTHONHASHSEED'] = '0'
    os.execv(sys.executable, [sys.executable, '-W', 'ignore'] + sys.argv)
sys.path.insert(0, os.path.dirname(os.path.dirname(os.path.abspath(__file__))))
sys.path.insert(0, os.environ.get('SUPVSIM_REPO', '/repo'))
import warnings; warnings.filterwarnings('ignore')
from supvsim import profiles, kernel, scenario
prop = sys.argv[1]
scen = json.load(open(sys.argv[2]))['scenario'] if sys.argv[2].endswith('.json') else profiles.build(prop, int(sys.argv[2]))
run = profiles.make_run(prop, scen)
run.schedule()
sim = run.sim
sim.run(run.t_end)
own = {}
for inst in sim.live():
    with scenario.frozen(sim, inst):
        sms = {s['identifier']: s for s in inst.rpcif.get_all_instances_state_modes()}
    own[inst.identifier] = sms[inst.identifier]
    print('==', inst.nick, inst.identifier)
    for ident, s in sorted(sms.items()):
        print('   ', ident, s['fsm_statename'], 'master=%r' % s['master_identifier'], {k.split(':')[0][-2:] + k[-1]: v[:4] for k, v in sorted(s['instance_states'].items())})
print('== stale views')
for inst in sim.live():
    with scenario.frozen(sim, inst):
        sms = {s['identifier']: s for s in inst.rpcif.get_all_instances_state_modes()}
    for ident, s in sms.items():
        if ident in own and ident != inst.identifier:
            o = own[ident]
            diff = {k: (s[k], o[k]) for k in ('fsm_statename', 'master_identifier', 'instance_states') if s[k] != o[k]}
            if diff:
                print(inst.nick, 'view of', ident, 'differs:', diff)
sim.close()
