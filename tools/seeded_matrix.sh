#!/bin/sh
# tools/seeded_matrix.sh: run the quick check of every property against its seeded change (default quick budget)
cd "$(dirname "$0")/.."
for d in seeded/*/; do
  name=$(basename "$d"); id=${name%%-*}
  git -C /repo apply "$(readlink -f "$d/patch.diff")" || { echo "$name patch does not apply"; continue; }
  out=$(VERIF_SCRATCH_EVIDENCE=/tmp/supvsim-scratch-evidence timeout 1500 ./check "$id" quick 2>&1 | grep "^VIOLATION" | head -1)
  git -C /repo checkout -- .
  echo "$name ${out:-MISSED}"
done
