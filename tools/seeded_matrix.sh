#!/bin/sh
# tools/seeded_matrix.sh [name...]: run the quick check of every property against its seeded changes (default quick budget).
# Each change is applied to a scratch worktree of /repo's HEAD (outside /repo and /verif, removed afterwards): /repo itself
# is not touched, so the matrix can run next to other checks.
cd "$(dirname "$0")/.."
names="$*"
[ -n "$names" ] || names=$(ls seeded)
for name in $names; do
  d=seeded/$name; id=${name%%-*}
  wt=/tmp/supvsim-matrix-$name
  git -C /repo worktree add --detach "$wt" HEAD >/dev/null 2>&1 || { echo "$name worktree failed"; continue; }
  if git -C "$wt" apply "$(readlink -f "$d/patch.diff")"; then
    out=$(SUPVSIM_REPO="$wt" VERIF_SEED=${VERIF_SEED:-1} VERIF_SCRATCH_EVIDENCE=/tmp/supvsim-scratch-evidence timeout 1500 ./check "$id" quick 2>&1 | grep "^VIOLATION\|^violation" | cut -c1-260 | tr '\n' ' ')
    echo "$name ${out:-MISSED}"
  else
    echo "$name patch does not apply"
  fi
  git -C /repo worktree remove --force "$wt"
done
