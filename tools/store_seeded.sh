#!/bin/sh
# tools/store_seeded.sh <ID> <name> : verify the demo of /tmp/wt_<ID> with / without the change and store it as seeded/<name>
id=$1; name=$2; wt=/tmp/wt_$id
cd $wt || exit 2
w=$(PYTHONPATH=$wt timeout 300 /venv/bin/python -m pytest -q -p no:cacheprovider -W ignore demo_$id.py 2>&1 | tail -1)
git apply -R patch.diff || exit 3
wo=$(PYTHONPATH=$wt timeout 300 /venv/bin/python -m pytest -q -p no:cacheprovider -W ignore demo_$id.py 2>&1 | tail -1)
git apply patch.diff
echo "with: $w"; echo "without: $wo"
mkdir -p /verif/seeded/$name
cp patch.diff demo_$id.py /verif/seeded/$name/
echo "$w" > /verif/seeded/$name/.with; echo "$wo" > /verif/seeded/$name/.without
