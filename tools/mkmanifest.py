#!/usr/bin/env python3
"""Regenerate MANIFEST.json from the table below (kept valid at all times)."""
import json, os
HERE = os.path.dirname(os.path.dirname(os.path.abspath(__file__)))
props = [json.loads(l) for l in open(os.path.join(HERE, 'properties.jsonl'))]
TECH = 'deterministic simulation with fault injection: seeded search over schedules, fault sequences and configurations of N real Supvisors instances in one process'
CLAIMED = {
 'C01': ('6/C01', 'Seeded simulated clusters (2-5 real instances, crash / restart incl. stealth / partition / heal, all synchro options): final agreement on one running self-declared Master per component, established Master kept, cold-start rule, Master-only automatic requests. Sampling of the schedule and fault space, not proof.',
         'Oracle evaluated only after a quiesce phase, per clean component whose synchronisation condition is satisfiable; stubs per evidence.assumptions'),
 'C02': ('6/C02', 'Every STATE publication of every instance, in every simulated run (faults + restart/shutdown/end_sync/restart_sequence operations), is checked against an independent copy of the documented graph, the RUNNING-Master precondition and the slave-after-Master ordering.',
         'Publications are tapped at RpcHandler.push_publication (instance attribute, no source change); known finding for supvisors_failure_strategy=SHUTDOWN listed in known_findings.json'),
 'C03': ('6/C03', 'Every start request, at the instant the requester pushes it, in runs where all start causes are application plans (DISTRIBUTION, restart_sequence, start/restart_application, RESTART_APPLICATION repairs): every lower positive start_sequence process of the application is done (RUNNING, expected exit, failed, timed out, host lost, or already running when the plan began), applications of a lower start_sequence are done in automatic plans, sequence 0 is never requested, nothing is requested after a required failure with ABORT/STOP.',
         'Requester view read at the request instant (atomic with its decision); truth from the real Subprocess objects; children: prompt, BACKOFF, FATAL, early exit, exec failure, slow / ignored stop; loss of the hosting instance'),
 'C04': ('6/C04', 'Every start request checked against the requester view and the target real Supervisor: target RUNNING, program known and enabled there, permitted by the applicable identifiers rule, independent node load computation (running + requests of the requester still pending) within 100; converse check of every forced No resource available; no request for a running process, no duplicate request.',
         'Loads near the cap, several instances per node, programs absent / disabled per instance, concurrent application starts, restarts of instances; one known finding (concurrent applications ignore each other\'s requested loads), one repaired defect (duplicated identifiers in the node map)'),
 'C14': ('6/C14', 'Placement of every start request recomputed from the requester view: CONFIG / LESS_LOADED / MOST_LOADED / LESS_LOADED_NODE / MOST_LOADED_NODE / LOCAL optimality over the independently computed eligible set (ties accepted), SINGLE_INSTANCE one target and SINGLE_NODE one machine per application plan.',
         'Strategy optimality is only judged when the requester has no other outstanding request (loads are then unambiguous); the strategy is attributed from the operation log (explicit strategy of the last accepted start/restart_application) or the application rules'),
 'C05': ('6/C05', 'Conciliation episodes of the Master (entered on STATE publication, closed on return to OPERATION) in runs where duplicates come from direct supervisor.startProcess and from partition heals, all six strategies: detection at the tick (idle Master, managed conflict persisting), exact stop set per strategy from the requests pushed by the Master (true spawn times of the copies from the simulator, with the documented uptime tolerance), nothing outside the conflict set, at most one restart per round, USER inert, no conflict left at exit.',
         'Episodes overlapping a fault are not judged (quantifier has none during conciliation); wrong copy kept because of a stale Master view is a recorded consequence of the C12 findings'),
 'C06': ('6/C06', 'Two deciders: (a) in every run, RunningFailureHandler.add_job calls of every instance are mirrored into a reference model of the four job sets (documented precedence, sequenced-only subsumption) and compared after each call, plus the mutual-exclusion invariant; (b) end to end: one instance crashed at a random instant (also during DISTRIBUTION) with all children starting normally, then >= 120 s of quiet: per application the governing strategy (precedence, promotion) must show in the true final placement and in the requests pushed since the loss (RESTART_PROCESS exactly one copy or an attempt ending FATAL, STOP_APPLICATION nothing left running, CONTINUE no request, nothing started twice).',
         'Runs where a new DISTRIBUTION followed the loss (Master lost, late joiner) are not judged end to end: the documented repair of applications in failure masks the strategy; known finding: endless restart loop when the command cannot be executed'),
 'C07': ('6/C07', 'Per (observer, peer) monitor in every simulated run: a RUNNING/CHECKED peer declared FAILED/STOPPED/ISOLATED must be justified by silence (> inactivity_ticks local ticks since the last TICK delivered to the listener), a failed XML-RPC, or a restart; a silent peer must be out of the active states at the stated tick and invalidated by the next; fencing rule; lost processes unlisted and FATAL; instance state graph incl. ISOLATED final and local never ISOLATED.',
         'Accuracy is judged on deliveries observed by the simulator (sound under any delay); crash / restart (stealth) / partition (refuse, blackhole, directed) / heal / stall / slow links, inactivity_ticks 2-5, both auto_fence values'),
 'C08': ('6/C08', 'Liveness after faults stop: crash / restart / healed partitions / process failures placed in every FSM state (triggers on ELECTION, DISTRIBUTION, CONCILIATION), then >= 200 s + synchro_timeout of simulated quiet; every member of every satisfiable component must be in OPERATION (CONCILIATION with USER and a real conflict) with no job pending.',
         'Bounded quiesce phase (stated in evidence); children eventually behave; supvisors_failure_strategy SHUTDOWN and USER-only synchronisation excluded as in the statement'),
 'C09': ('6/C09', 'Every stop request at the instant it is pushed: target where the requester sees the process running, no higher stop_sequence process of the application still running / stopping (requester view and truth), same-level processes asked together, decreasing application stop_sequence in ending plans; supvisors.restart / shutdown issued on any instance: at most one supervisor.restart/shutdown per Supervisor incarnation, sent only after its FINAL, the Master reaches FINAL only when everything that ran when the plan was built is stopped or given up, every member instance ends (gone or rebooted); loss of a non-Master during the ending phase.',
         'Stop behaviours prompt / slow / never (SIGKILL after stopwaitsecs); four known findings (ending publications dropped when the Master exits at once, ending cut short by a consistency failure, processes already STOPPING not waited at both levels), one repaired defect'),
 'C12': ('6/C12', 'At every quiescent instant (no message queued or in flight, no hand-shake in progress, mutual admission, every instance seen RUNNING alive and hand-shaken in its current incarnation) of runs with continuous process activity (autostart/autorestart loops, crashes, direct supervisor.start/stopProcess, application start/stop) while instances join late, crash, restart and partitions heal: each observer\'s get_all_process_info location set and running state must equal what the real Supervisor Subprocess objects of the instances it sees RUNNING report.',
         'Three genuine stale-view mechanisms are recorded as known findings with signatures derived from the observed message history (event not sent / rejected / orphan STOPPING entry); any other mismatch is a violation'),
 'C16': ('6/C16', 'Union of fault kinds (crash, restart, partition, stall, slow link, clock jump, process crash) and of all XML-RPC methods with valid and hostile parameters on diverse configurations (instances of one node knowing different programs): no CRIT record with a traceback, no non-RPCError exception out of an XML-RPC method (incl. TypeError masked by Supervisor), no exception out of a proxy job.',
         'Exceptions are observed at the harness RPC dispatcher and in the captured Supervisor logger; 9 defects found this way were repaired (known_findings.json, regressions/)'),
}
NA = {'C18': 'pure function of a rules document / option dictionary evaluated once at start-up: no schedule, clock, fault or interleaving to simulate (DESIGN section 7)'}
checks = []
for p in props:
    pid = p['id']
    if pid in CLAIMED:
        ref, text, note = CLAIMED[pid]
        checks.append({'property_id': pid, 'quick_cmd': './check %s quick' % pid, 'thorough_cmd': './check %s thorough' % pid,
                       'evidence_file': 'evidence/%s.json' % pid, 'replay_cmd_template': './check %s --replay {path}' % pid,
                       'engine': 'supvsim', 'level_claimed': {'category': 'exploration', 'text': text, 'design_ref': ref},
                       'level_note': note, 'technique': TECH})
na = [{'property_id': p['id'], 'reason': NA.get(p['id'], 'check not built yet (work in progress in this session)')}
      for p in props if p['id'] not in CLAIMED]
m = {'version': 1,
     'setup_cmd': './setup.sh',
     'hooks': {'guard': 'SUPVISORS_VERIF', 'enable': 'no source hook exists: every seam is a module/class/instance attribute rebound by /verif/supvsim at run time; checks import supvisors from /repo working tree',
               'baseline_off_cmd': 'cd /repo && /venv/bin/python -m pytest -ra -q -p no:cacheprovider --timeout=900 --continue-on-collection-errors',
               'source_commits': [], 'add_only': True},
     'engines': [{'name': 'supvsim', 'path': 'supvsim/', 'serves_properties': sorted(CLAIMED), 'kind_free_text': 'hand-written deterministic discrete-event simulator running N real Supvisors + Supervisor instances in one Python process, seeded fault injection, delta-debugging minimiser, replay files'}],
     'checks': checks,
     'notes': 'fix: commits in /repo and known findings are listed in known_findings.json; regressions/ holds minimised replays of repaired defects, replayed by every check',
     'not_applicable': na}
json.dump(m, open(os.path.join(HERE, 'MANIFEST.json'), 'w'), indent=1)
print('claimed', sorted(CLAIMED), 'not claimed', [x['property_id'] for x in na])
