#!/bin/sh
# tools/try_mutant.sh <patch.diff> <prop> [runs]: apply a patch to /repo, run the quick check of a property, revert.
patch="$(readlink -f "$1")"; prop="$2"; runs="${3:-640}"
git -C /repo apply "$patch" || { echo "patch does not apply"; exit 3; }
VERIF_SCRATCH_EVIDENCE=/tmp/supvsim-scratch-evidence VERIF_RUNS=$runs timeout 1500 /verif/check "$prop" quick 2>&1 | grep -v "^KNOWN" | tail -4 | cut -c1-600
git -C /repo checkout -- .
