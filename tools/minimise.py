#!/venv/bin/python
"""tools/minimise.py <prop> <seed> <signature> <out.json>: minimise the scenario of one seed for one violation signature."""
import json
import multiprocessing
import os
import sys
from concurrent.futures import ProcessPoolExecutor

if os.environ.get('PYTHONHASHSEED') != '0':
    os.environ['PYTHONHASHSEED'] = '0'
    os.execv(sys.executable, [sys.executable, '-W', 'ignore'] + sys.argv)
sys.path.insert(0, os.path.dirname(os.path.dirname(os.path.abspath(__file__))))
sys.path.insert(0, os.environ.get('SUPVSIM_REPO', '/repo'))
import warnings  # noqa
warnings.filterwarnings('ignore')
from supvsim import batch, profiles  # noqa

prop, seed, sig, out = sys.argv[1], int(sys.argv[2]), sys.argv[3], sys.argv[4]
if os.environ.get('SCEN_FILE'):
    scen = dict(json.load(open(os.environ['SCEN_FILE']))['scenario'], prop=prop)
else:
    scen = dict(profiles.build(os.environ.get('BUILD_PROP', prop), seed), prop=prop)
res = batch.run_seed(prop, seed, 0, replay=scen)
hits = [v for v in res['violations'] if v['signature'] == sig]
if not hits:
    print('signature not found; got', [v['signature'] for v in res['violations']], res['harness_error'])
    sys.exit(1)
ctx = multiprocessing.get_context('fork')
with ProcessPoolExecutor(max_workers=16, mp_context=ctx, initializer=batch._worker_init) as pool:
    scen = batch.minimise(prop, scen, sig, pool, budget_s=float(os.environ.get('MIN_BUDGET', '120')))
with open(out, 'w') as f:
    json.dump({'property': prop, 'violation': hits[0], 'scenario': scen}, f, indent=1, sort_keys=True)
print('written', out, 'plan items:', len(scen['plan']))
