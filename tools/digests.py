import os, sys
sys.path.insert(0, os.path.dirname(os.path.dirname(os.path.abspath(__file__))))
sys.path.insert(0, os.environ.get('SUPVSIM_REPO', '/repo'))
import warnings; warnings.filterwarnings('ignore')
from supvsim import batch, kernel
n = int(sys.argv[1])
out = []
for prop in ('C16', 'C08', 'C11', 'C13', 'C17', 'C19', 'C20'):
    for i in range(n):
        seed = kernel.hash64(7, prop, i) % (1 << 48)
        res = batch.run_seed(prop, seed, i)
        if res['harness_error']:
            print(res['harness_error']); sys.exit(2)
        out.append('%s:%d:%s:%d' % (prop, seed, res['digest'][:16], res['steps']))
print('\n'.join(out))
