#!/bin/sh
# tools/thorough_survey.sh [ID...]: the registered thorough command of every (or the given) claimed check, in survey mode
# (all unlisted signatures are listed with seeds instead of stopping at the first; evidence goes to a scratch directory)
cd "$(dirname "$0")/.."
ids="$*"
[ -n "$ids" ] || ids=$(python3 -c "import json;print(' '.join(c['property_id'] for c in json.load(open('MANIFEST.json'))['checks']))")
for p in $ids; do
  echo "=== $p thorough"
  VERIF_SURVEY=1 VERIF_SEED=${VERIF_SEED:-1} timeout 3300 ./check $p thorough 2>&1 | grep -v "^KNOWN\|^  \|^Traceback" | cut -c1-400
  echo "exit=$?"
done
