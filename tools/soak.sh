#!/bin/sh
# tools/soak.sh <runs> <seed...>: run every claimed check with several batch seeds (survey mode: all signatures listed)
runs="$1"; shift
cd "$(dirname "$0")/.."
for seed in "$@"; do
  for p in $(python3 -c "import json;print(' '.join(c['property_id'] for c in json.load(open('MANIFEST.json'))['checks']))"); do
    echo "=== $p seed=$seed"
    VERIF_SURVEY=1 VERIF_SEED=$seed VERIF_RUNS=$runs timeout 3000 ./check $p quick 2>&1 | grep -v "^KNOWN\|^  \|^Traceback" | cut -c1-400
  done
done
