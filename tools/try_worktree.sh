#!/bin/sh
# tools/try_worktree.sh <worktree> <prop> [runs]: run the quick check of a property against another tree (a scratch
# worktree holding a seeded change) without touching /repo; evidence goes to a scratch directory.
wt="$(readlink -f "$1")"; prop="$2"; runs="${3:-}"
[ -n "$runs" ] && export VERIF_RUNS=$runs
SUPVSIM_REPO="$wt" VERIF_SEED=${VERIF_SEED:-1} VERIF_SCRATCH_EVIDENCE=/tmp/supvsim-scratch-evidence timeout 1500 /verif/check "$prop" quick 2>&1 | grep -v "^KNOWN" | tail -4 | cut -c1-700
