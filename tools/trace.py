#!/venv/bin/python
"""tools/trace.py <prop> <seed|replay.json> [t0 [t1]]: merged timeline (plan items, WARN+ logs of every instance) of one run."""
import json
import os
import sys

if os.environ.get('PYTHONHASHSEED') != '0':
    os.environ['PYTHONHASHSEED'] = '0'
    os.execv(sys.executable, [sys.executable, '-W', 'ignore'] + sys.argv)
sys.path.insert(0, os.path.dirname(os.path.dirname(os.path.abspath(__file__))))
sys.path.insert(0, os.environ.get('SUPVSIM_REPO', '/repo'))
import warnings  # noqa
warnings.filterwarnings('ignore')
from supvsim import profiles, kernel  # noqa

prop = sys.argv[1]
if sys.argv[2].endswith('.json'):
    scen = json.load(open(sys.argv[2]))['scenario']
else:
    scen = profiles.build(prop, int(sys.argv[2]))
t0 = float(sys.argv[3]) if len(sys.argv) > 3 else 0.0
t1 = float(sys.argv[4]) if len(sys.argv) > 4 else 1e9
level = int(os.environ.get('LOGLEVEL', '30'))
run = profiles.make_run(prop, scen)
run.sim.log_level = level
print('supvisors:', scen['config']['supvisors'])
print('instances:', [(i['nick'], i['node'], i.get('absent_programs'), i.get('disabled')) for i in scen['config']['instances']])
print('latency:', scen['config']['latency'], 't_end', scen['t_end'])
try:
    violations = run.execute()
except Exception as exc:
    print('EXC', repr(exc))
    violations = []
sim = run.sim
lines = []
for t_us, item, fired in run.applied:
    lines.append((t_us, '** PLAN %s fired=%s' % (json.dumps(item), fired)))
for inst in list(sim.instances.values()) + sim.graveyard:
    if inst.logger is None:
        continue
    for t_us, lvl, text in inst.logger.records:
        if 'check_strict_failure' in text or 'check_list_failure' in text or 'check_core_failure' in text:
            continue
        lines.append((t_us, '%s#%d [%d] %s' % (inst.nick, inst.incarnation, lvl, text[:400])))
seen = set()
for t_us, text in sorted(lines, key=lambda x: x[0]):
    if (t_us, text) in seen:
        continue
    seen.add((t_us, text))
    if t0 <= t_us / 1e6 <= t1:
        print('%10.3f %s' % (t_us / 1e6, text))
for v in violations:
    print('VIOLATION', json.dumps(v.as_dict())[:1500])
print('stats', dict(sim.stats), 'aborted', sim.aborted)
