#!/venv/bin/python
"""tools/determinism.py <n seeds per property> <workers>: digests of n seeds of every claimed property, computed in a
process pool of the given size (fresh interpreter, PYTHONHASHSEED taken from the environment). Two outputs must be equal."""
import multiprocessing
import os
import sys
from concurrent.futures import ProcessPoolExecutor
sys.path.insert(0, os.path.dirname(os.path.dirname(os.path.abspath(__file__))))
sys.path.insert(0, os.environ.get('SUPVSIM_REPO', '/repo'))
import warnings  # noqa
warnings.filterwarnings('ignore')
from supvsim import batch, kernel, profiles  # noqa


def one(args):
    prop, seed, i = args
    res = batch.run_seed(prop, seed, i)
    if res['harness_error']:
        return '%s:%d:HARNESS %s' % (prop, seed, res['harness_error'].strip().split('\n')[-1])
    return '%s:%d:%s:%d:%d' % (prop, seed, res['digest'][:24], res['steps'], len(res['violations']))


if __name__ == '__main__':
    n, workers = int(sys.argv[1]), int(sys.argv[2])
    jobs = [(prop, kernel.hash64(11, prop, i) % (1 << 48), i) for prop in sorted(profiles.PROFILES) for i in range(n)]
    ctx = multiprocessing.get_context('fork')
    with ProcessPoolExecutor(max_workers=workers, mp_context=ctx, initializer=batch._worker_init) as pool:
        for line in pool.map(one, jobs, chunksize=3):
            print(line)
